(* Generic list facts used by the engine invariant proofs (Proofs/Engine_inv.v).
   Nothing here mentions cells, constraints or objectives: only the pure list
   helpers of Model/Engine.v (seqn, set_nth, all_some, mem_nat, coll_add,
   coll_remove, sumZ, insert_places, places_of, first_gap). *)

From Coq Require Import List ZArith Bool Arith Lia Permutation Sorted.
From NR Require Import Model.Engine.
Import ListNotations.
Local Open Scope nat_scope.

(* ------------------------------------------------------------------ *)
(* NoDup / concat                                                      *)
(* ------------------------------------------------------------------ *)

Lemma NoDup_app_iff {A} (a b : list A) :
  NoDup (a ++ b) <-> NoDup a /\ NoDup b /\ (forall x, In x a -> In x b -> False).
Proof.
  induction a as [|h a IH]; simpl.
  - split.
    + intros Hb. split; [constructor|]. split; [exact Hb|]. intros x [].
    + intros (_ & Hb & _). exact Hb.
  - split.
    + intros Hn. inversion Hn as [|h' l' Hnotin Hn']; subst.
      apply IH in Hn'. destruct Hn' as (Ha & Hb & Hd).
      split.
      * constructor; [|exact Ha]. intro Hin. apply Hnotin. apply in_or_app. left; exact Hin.
      * split; [exact Hb|].
        intros x [Hx|Hx] Hxb.
        -- subst x. apply Hnotin. apply in_or_app. right; exact Hxb.
        -- exact (Hd x Hx Hxb).
    + intros (Ha & Hb & Hd). inversion Ha as [|h' l' Hnotin Ha']; subst.
      constructor.
      * intro Hin. apply in_app_or in Hin. destruct Hin as [Hin|Hin].
        -- exact (Hnotin Hin).
        -- exact (Hd h (or_introl eq_refl) Hin).
      * apply IH. split; [exact Ha'|]. split; [exact Hb|].
        intros x Hx Hxb. exact (Hd x (or_intror Hx) Hxb).
Qed.

Lemma NoDup_concat_elem {A} (L : list (list A)) (l : list A) :
  NoDup (concat L) -> In l L -> NoDup l.
Proof.
  induction L as [|h L IH]; simpl; intros Hn Hin.
  - destruct Hin.
  - apply NoDup_app_iff in Hn. destruct Hn as (Hh & HL & _).
    destruct Hin as [Heq|Hin].
    + subst. exact Hh.
    + exact (IH HL Hin).
Qed.

(* two different positions of a duplicate-free concatenation are disjoint *)
Lemma NoDup_concat_nth {A B} (f : A -> list B) (d : A) :
  forall (l : list A) (i j : nat) (x : B),
    NoDup (concat (map f l)) -> i < length l -> j < length l -> i <> j ->
    In x (f (nth i l d)) -> In x (f (nth j l d)) -> False.
Proof.
  induction l as [|a l IH]; simpl; intros i j x Hn Hi Hj Hij Hxi Hxj.
  - lia.
  - apply NoDup_app_iff in Hn. destruct Hn as (_ & Hl & Hd).
    destruct i as [|i], j as [|j].
    + lia.
    + apply (Hd x Hxi). apply in_concat. exists (f (nth j l d)). split; [|exact Hxj].
      apply in_map. apply nth_In. lia.
    + apply (Hd x Hxj). apply in_concat. exists (f (nth i l d)). split; [|exact Hxi].
      apply in_map. apply nth_In. lia.
    + apply (IH i j x Hl); try lia; assumption.
Qed.

Lemma NoDup_filter_app {A} (p : A -> bool) (b r : list A) :
  NoDup (b ++ r) -> NoDup (filter p b ++ r).
Proof.
  intros Hn. apply NoDup_app_iff in Hn. destruct Hn as (Hb & Hr & Hd).
  apply NoDup_app_iff. split; [apply NoDup_filter; exact Hb|]. split; [exact Hr|].
  intros x Hx Hxr. apply filter_In in Hx. destruct Hx as (Hx & _). exact (Hd x Hx Hxr).
Qed.

(* ------------------------------------------------------------------ *)
(* last / firstn / skipn / removelast                                  *)
(* ------------------------------------------------------------------ *)

Lemma last_cons_default {A} (l : list A) (a d : A) : last (a :: l) d = last l a.
Proof.
  revert a d. induction l as [|b l IH]; intros a d; [reflexivity|].
  change (last (a :: b :: l) d) with (last (b :: l) d).
  rewrite IH. symmetry. apply IH.
Qed.

Lemma In_removelast {A} (l : list A) (x : A) : In x (removelast l) -> In x l.
Proof.
  induction l as [|a l IH]; simpl; [tauto|].
  destruct l as [|b l]; [intros []|].
  intros [Hx|Hx]; [left; exact Hx|right; exact (IH Hx)].
Qed.

Lemma In_tl {A} (l : list A) (x : A) : In x (tl l) -> In x l.
Proof. destruct l; simpl; [tauto|]. intros H; right; exact H. Qed.

Lemma removelast_snoc {A} (l : list A) (a : A) : removelast (l ++ [a]) = l.
Proof. apply removelast_last. Qed.

Lemma Forall_skipn' {A} (P : A -> Prop) (k : nat) (l : list A) : Forall P l -> Forall P (skipn k l).
Proof.
  revert l. induction k as [|k IH]; intros l Hl; [exact Hl|].
  destruct l as [|a l]; [constructor|]. simpl. apply IH. inversion Hl; assumption.
Qed.

Lemma Forall_firstn' {A} (P : A -> Prop) (k : nat) (l : list A) : Forall P l -> Forall P (firstn k l).
Proof.
  revert l. induction k as [|k IH]; intros l Hl; [constructor|].
  destruct l as [|a l]; [constructor|]. simpl. inversion Hl; subst. constructor; [assumption|].
  apply IH. assumption.
Qed.

(* the tail of [l] is fine if the tail of a list sharing its first S k
   elements is fine and the rest of [l] is fine *)
Lemma Forall_tl_split {A} (P : A -> Prop) (k : nat) (l l0 : list A) :
  firstn (S k) l = firstn (S k) l0 -> Forall P (tl l0) -> Forall P (skipn (S k) l) ->
  Forall P (tl l).
Proof.
  intros Heq H0 Hs.
  destruct l as [|a l]; [constructor|]. simpl in *.
  rewrite <- (firstn_skipn k l). apply Forall_app. split; [|exact Hs].
  destruct l0 as [|a0 l0]; [discriminate|]. simpl in *.
  injection Heq as _ Heq. rewrite Heq. apply Forall_firstn'. exact H0.
Qed.

(* ------------------------------------------------------------------ *)
(* seqn                                                                *)
(* ------------------------------------------------------------------ *)

Lemma length_seqn (n : nat) : length (seqn n) = n.
Proof. induction n as [|n IH]; simpl; [reflexivity|]. rewrite app_length, IH. simpl. lia. Qed.

Lemma In_seqn (n x : nat) : In x (seqn n) <-> x < n.
Proof.
  induction n as [|n IH]; simpl.
  - split; [tauto|lia].
  - rewrite in_app_iff, IH. simpl. lia.
Qed.

Lemma nth_seqn (n i d : nat) : i < n -> nth i (seqn n) d = i.
Proof.
  induction n as [|n IH]; intros Hi; [lia|]. simpl.
  destruct (Nat.eq_dec i n) as [->|Hne].
  - rewrite app_nth2; rewrite length_seqn; [|lia]. rewrite Nat.sub_diag. reflexivity.
  - rewrite app_nth1; [|rewrite length_seqn; lia]. apply IH. lia.
Qed.

Lemma NoDup_seqn (n : nat) : NoDup (seqn n).
Proof.
  induction n as [|n IH]; simpl; [constructor|].
  apply NoDup_app_iff. split; [exact IH|]. split.
  - constructor; [intros []|constructor].
  - intros x Hx [Hx'|[]]. subst. apply In_seqn in Hx. lia.
Qed.

(* ------------------------------------------------------------------ *)
(* set_nth                                                             *)
(* ------------------------------------------------------------------ *)

Lemma length_set_nth {A} (l : list A) (i : nat) (x : A) : length (set_nth l i x) = length l.
Proof.
  revert i. induction l as [|a l IH]; intros i; [reflexivity|].
  destruct i; simpl; [reflexivity|]. rewrite IH. reflexivity.
Qed.

Lemma nth_set_nth_eq {A} (l : list A) (i : nat) (x d : A) :
  i < length l -> nth i (set_nth l i x) d = x.
Proof.
  revert i. induction l as [|a l IH]; intros i Hi; simpl in *; [lia|].
  destruct i; simpl; [reflexivity|]. apply IH. lia.
Qed.

Lemma nth_set_nth_neq {A} (l : list A) (i j : nat) (x d : A) :
  i <> j -> nth j (set_nth l i x) d = nth j l d.
Proof.
  revert i j. induction l as [|a l IH]; intros i j Hij; [reflexivity|].
  destruct i, j; simpl; try reflexivity; try lia.
  apply IH. lia.
Qed.

Lemma set_nth_same {A} (l : list A) (i : nat) (d : A) : set_nth l i (nth i l d) = l.
Proof.
  revert i. induction l as [|a l IH]; intros i; [reflexivity|].
  destruct i; simpl; [reflexivity|]. rewrite IH. reflexivity.
Qed.

Lemma set_nth_split {A} (l : list A) (i : nat) (x d : A) :
  i < length l ->
  exists l1 l2, l = l1 ++ nth i l d :: l2 /\ set_nth l i x = l1 ++ x :: l2 /\ length l1 = i.
Proof.
  revert i. induction l as [|a l IH]; intros i Hi; simpl in *; [lia|].
  destruct i.
  - exists [], l. simpl. auto.
  - destruct (IH i ltac:(lia)) as (l1 & l2 & H1 & H2 & H3).
    exists (a :: l1), l2. simpl. rewrite <- H1, H2, H3. auto.
Qed.

(* the concatenation before and after replacing position i, up to order *)
Lemma concat_map_set_nth {A B} (f : A -> list B) (l : list A) (i : nat) (x d : A) :
  i < length l ->
  exists R, Permutation (concat (map f l)) (f (nth i l d) ++ R) /\
            Permutation (concat (map f (set_nth l i x))) (f x ++ R).
Proof.
  intros Hi. destruct (set_nth_split l i x d Hi) as (l1 & l2 & H1 & H2 & _).
  exists (concat (map f l1) ++ concat (map f l2)).
  rewrite H2. rewrite H1 at 1.
  rewrite !map_app, !concat_app. simpl.
  split; apply Permutation_app_swap_app.
Qed.

(* ------------------------------------------------------------------ *)
(* all_some                                                            *)
(* ------------------------------------------------------------------ *)

Lemma all_some_map_spec {A B} (f : A -> option B) :
  forall (l : list A) (rs : list B),
    all_some (map f l) = Some rs ->
    length rs = length l /\
    forall i da db, i < length l -> f (nth i l da) = Some (nth i rs db).
Proof.
  induction l as [|a l IH]; simpl; intros rs H.
  - injection H as <-. split; [reflexivity|]. intros; lia.
  - destruct (f a) as [b|] eqn:Ea; [|discriminate].
    destruct (all_some (map f l)) as [xs|] eqn:Er; [|discriminate].
    injection H as <-. destruct (IH xs eq_refl) as (Hlen & Hnth).
    split; [simpl; rewrite Hlen; reflexivity|].
    intros i da db Hi. destruct i; simpl; [exact Ea|]. apply Hnth. lia.
Qed.

(* ------------------------------------------------------------------ *)
(* mem_nat, coll_add, coll_remove                                      *)
(* ------------------------------------------------------------------ *)

Lemma mem_nat_In (x : nat) (l : list nat) : mem_nat x l = true <-> In x l.
Proof.
  unfold mem_nat. rewrite existsb_exists. split.
  - intros (y & Hy & He). apply Nat.eqb_eq in He. subst. exact Hy.
  - intros H. exists x. split; [exact H|apply Nat.eqb_refl].
Qed.

Lemma mem_nat_false (x : nat) (l : list nat) : mem_nat x l = false <-> ~ In x l.
Proof.
  rewrite <- mem_nat_In. destruct (mem_nat x l); split; intros H; congruence.
Qed.

Lemma In_coll_add (x y : nat) (l : list nat) : In y (coll_add x l) <-> y = x \/ In y l.
Proof.
  unfold coll_add. destruct (mem_nat x l) eqn:E.
  - apply mem_nat_In in E. split; [auto|]. intros [->|H]; assumption.
  - rewrite in_app_iff. simpl. intuition.
Qed.

Lemma In_coll_remove (x y : nat) (l : list nat) : In y (coll_remove x l) <-> In y l /\ y <> x.
Proof.
  unfold coll_remove. rewrite filter_In. rewrite negb_true_iff, Nat.eqb_neq. intuition.
Qed.

Lemma NoDup_coll_add (x : nat) (l : list nat) : NoDup l -> NoDup (coll_add x l).
Proof.
  intros Hl. unfold coll_add. destruct (mem_nat x l) eqn:E; [exact Hl|].
  apply mem_nat_false in E. apply NoDup_app_iff. split; [exact Hl|]. split.
  - constructor; [intros []|constructor].
  - intros y Hy [<-|[]]. exact (E Hy).
Qed.

Lemma NoDup_coll_remove (x : nat) (l : list nat) : NoDup l -> NoDup (coll_remove x l).
Proof. intros Hl. unfold coll_remove. apply NoDup_filter. exact Hl. Qed.

Lemma coll_remove_notin (x : nat) (l : list nat) : ~ In x l -> coll_remove x l = l.
Proof.
  unfold coll_remove. induction l as [|a l IH]; simpl; intros Hn; [reflexivity|].
  destruct (Nat.eqb x a) eqn:E.
  - apply Nat.eqb_eq in E. subst. exfalso. apply Hn. left; reflexivity.
  - simpl. rewrite IH; [reflexivity|]. intro H. apply Hn. right; exact H.
Qed.

Lemma coll_add_remove_perm (x : nat) (l : list nat) :
  NoDup l -> In x l -> Permutation (coll_add x (coll_remove x l)) l.
Proof.
  intros Hn Hin. apply NoDup_Permutation.
  - apply NoDup_coll_add, NoDup_coll_remove, Hn.
  - exact Hn.
  - intros y. rewrite In_coll_add, In_coll_remove.
    destruct (Nat.eq_dec y x) as [->|Hne]; intuition.
Qed.

(* ------------------------------------------------------------------ *)
(* sumZ                                                                *)
(* ------------------------------------------------------------------ *)

Lemma sumZ_perm (l l' : list Z) : Permutation l l' -> sumZ l = sumZ l'.
Proof.
  unfold sumZ. induction 1; simpl; lia.
Qed.

Lemma sumZ_map_perm {A} (f : A -> Z) (l l' : list A) :
  Permutation l l' -> sumZ (map f l) = sumZ (map f l').
Proof. intros H. apply sumZ_perm. apply Permutation_map. exact H. Qed.

(* ------------------------------------------------------------------ *)
(* insert_places                                                       *)
(* ------------------------------------------------------------------ *)

Definition gap_eq (pos : nat) (p : nat * nat) : bool := Nat.eqb (snd p) pos.
Definition gap_ne (pos : nat) (p : nat * nat) : bool := negb (Nat.eqb (snd p) pos).

Lemma filter_gap_eq_none (pos : nat) (places : list (nat * nat)) :
  Forall (fun p => pos < snd p) places -> filter (fun p => Nat.eqb (snd p) pos) places = [].
Proof.
  induction 1 as [|p l Hp Hl IH]; simpl; [reflexivity|].
  destruct (Nat.eqb (snd p) pos) eqn:E; [apply Nat.eqb_eq in E; lia|exact IH].
Qed.

Lemma filter_gap_ne_all (pos : nat) (places : list (nat * nat)) :
  Forall (fun p => pos < snd p) places ->
  filter (fun p => negb (Nat.eqb (snd p) pos)) places = places.
Proof.
  induction 1 as [|p l Hp Hl IH]; simpl; [reflexivity|].
  destruct (Nat.eqb (snd p) pos) eqn:E; [apply Nat.eqb_eq in E; lia|]. simpl. rewrite IH. reflexivity.
Qed.

Lemma filter_partition_perm {A} (p : A -> bool) (l : list A) :
  Permutation l (filter p l ++ filter (fun x => negb (p x)) l).
Proof.
  induction l as [|a l IH]; simpl; [constructor|].
  destruct (p a); simpl.
  - constructor. exact IH.
  - apply Permutation_cons_app. exact IH.
Qed.

(* the inserted stops are exactly added, whatever the gaps *)
Lemma insert_places_perm :
  forall (route : list nat) (pos : nat) (places : list (nat * nat)),
    Permutation (insert_places pos route places) (route ++ map fst places).
Proof.
  induction route as [|x rest IH]; intros pos places; simpl; [reflexivity|].
  set (here := filter (fun p => Nat.eqb (snd p) pos) places).
  set (later := filter (fun p => negb (Nat.eqb (snd p) pos)) places).
  transitivity (map fst here ++ x :: rest ++ map fst later).
  - apply Permutation_app_head. constructor. apply IH.
  - transitivity (x :: rest ++ map fst later ++ map fst here).
    + change (x :: rest ++ map fst later ++ map fst here)
        with ((x :: rest) ++ map fst later ++ map fst here).
      rewrite app_assoc.
      change (x :: rest ++ map fst later) with ((x :: rest) ++ map fst later).
      apply Permutation_app_comm.
    + constructor. apply Permutation_app_head.
      rewrite <- map_app. apply Permutation_map.
      transitivity (here ++ later); [apply Permutation_app_comm|].
      symmetry. apply (filter_partition_perm (fun p => Nat.eqb (snd p) pos)).
Qed.

(* gaps strictly after [pos]: the head of the route is kept *)
Lemma insert_places_head (pos x : nat) (rest : list nat) (places : list (nat * nat)) :
  Forall (fun p => pos < snd p) places ->
  insert_places pos (x :: rest) places = x :: insert_places (S pos) rest places.
Proof.
  intros H. simpl. rewrite (filter_gap_eq_none pos places H), (filter_gap_ne_all pos places H).
  reflexivity.
Qed.

(* gaps not after the last position: the last element stays last *)
Lemma insert_places_last :
  forall (mid : list nat) (pos : nat) (places : list (nat * nat)) (lst : nat),
    Forall (fun p => pos <= snd p /\ snd p <= pos + length mid) places ->
    exists mid', insert_places pos (mid ++ [lst]) places = mid' ++ [lst] /\
                 Permutation mid' (mid ++ map fst places).
Proof.
  induction mid as [|m mid IH]; intros pos places lst Hg.
  - simpl in *.
    assert (Hall : forall p, In p places -> Nat.eqb (snd p) pos = true).
    { intros p Hp. rewrite Forall_forall in Hg. specialize (Hg p Hp). apply Nat.eqb_eq. lia. }
    assert (Hh : filter (fun p => Nat.eqb (snd p) pos) places = places).
    { clear Hg. induction places as [|p l IHl]; simpl; [reflexivity|].
      rewrite (Hall p (or_introl eq_refl)). rewrite IHl; [reflexivity|].
      intros q Hq. apply Hall. right; exact Hq. }
    assert (Hl : filter (fun p => negb (Nat.eqb (snd p) pos)) places = []).
    { clear Hg Hh. induction places as [|p l IHl]; simpl; [reflexivity|].
      rewrite (Hall p (or_introl eq_refl)). simpl. apply IHl.
      intros q Hq. apply Hall. right; exact Hq. }
    rewrite Hh, Hl. simpl. exists (map fst places). split; reflexivity.
  - simpl.
    set (here := filter (fun p => Nat.eqb (snd p) pos) places).
    set (later := filter (fun p => negb (Nat.eqb (snd p) pos)) places).
    assert (Hlater : Forall (fun p => S pos <= snd p /\ snd p <= S pos + length mid) later).
    { apply Forall_forall. intros p Hp. unfold later in Hp. apply filter_In in Hp.
      destruct Hp as (Hp & Hne). rewrite Forall_forall in Hg. specialize (Hg p Hp).
      apply negb_true_iff, Nat.eqb_neq in Hne. simpl in Hg. lia. }
    destruct (IH (S pos) later lst Hlater) as (mid0 & Heq & Hperm).
    rewrite Heq. exists (map fst here ++ m :: mid0). split.
    + rewrite <- app_assoc. reflexivity.
    + transitivity (map fst here ++ m :: mid ++ map fst later).
      * apply Permutation_app_head. constructor. exact Hperm.
      * transitivity ((m :: mid ++ map fst later) ++ map fst here);
          [apply Permutation_app_comm|].
        simpl. constructor. rewrite <- app_assoc. apply Permutation_app_head.
        rewrite <- map_app. apply Permutation_map.
        transitivity (here ++ later); [apply Permutation_app_comm|].
        symmetry. apply (filter_partition_perm (fun p => Nat.eqb (snd p) pos)).
Qed.

(* the prefix before the first gap is untouched *)
Lemma insert_places_firstn :
  forall (route : list nat) (k pos : nat) (places : list (nat * nat)),
    k <= length route ->
    Forall (fun p => pos + k <= snd p) places ->
    firstn k (insert_places pos route places) = firstn k route.
Proof.
  induction route as [|x rest IH]; intros k pos places Hk Hg.
  - simpl in Hk. assert (k = 0) by lia. subst. reflexivity.
  - destruct k as [|k]; [reflexivity|].
    rewrite insert_places_head.
    + simpl. f_equal. apply IH; [simpl in Hk; lia|].
      eapply Forall_impl; [|exact Hg]. simpl. intros; lia.
    + eapply Forall_impl; [|exact Hg]. simpl. intros; lia.
Qed.

Lemma first_gap_le_all (places : list (nat * nat)) :
  Sorted le (map snd places) -> Forall (fun p => first_gap places <= snd p) places.
Proof.
  intros Hs. apply Sorted_StronglySorted in Hs; [|intros a b c; lia].
  destruct places as [|[x g] rest]; [constructor|]. simpl in *.
  inversion Hs as [|a l Hss Hall]; subst.
  constructor; [simpl; lia|].
  rewrite Forall_map in Hall. exact Hall.
Qed.

(* ------------------------------------------------------------------ *)
(* places_of / filter (un-plan)                                        *)
(* ------------------------------------------------------------------ *)

Lemma places_of_prefix (us : list nat) :
  forall (l : list nat) (pos : nat),
    match places_of us pos l with
    | [] => filter (fun x => negb (mem_nat x us)) l = l
    | (_, g) :: _ =>
        pos <= g /\
        firstn (g - pos) (filter (fun x => negb (mem_nat x us)) l) = firstn (g - pos) l
    end.
Proof.
  induction l as [|a l IH]; intros pos; simpl; [reflexivity|].
  destruct (mem_nat a us) eqn:E; simpl.
  - split; [lia|]. rewrite Nat.sub_diag. reflexivity.
  - specialize (IH (S pos)). destruct (places_of us (S pos) l) as [|[x g] rest].
    + rewrite IH. reflexivity.
    + destruct IH as (Hle & Heq). split; [lia|].
      replace (g - pos) with (S (g - S pos)) by lia. simpl. rewrite Heq. reflexivity.
Qed.

(* un-plan recomputes from the cached cell right before the unit's first stop:
   up to there the filtered sequence and the old one agree *)
Lemma places_of_firstn (us : list nat) (h : nat) (t : list nat) :
  mem_nat h us = false ->
  firstn (S (first_gap (places_of us 0 (h :: t)) - 1))
         (filter (fun x => negb (mem_nat x us)) (h :: t))
  = firstn (S (first_gap (places_of us 0 (h :: t)) - 1)) (h :: t).
Proof.
  intros Hh.
  assert (Hp : places_of us 0 (h :: t) = places_of us 1 t) by (simpl; rewrite Hh; reflexivity).
  assert (Hf : filter (fun x => negb (mem_nat x us)) (h :: t)
               = h :: filter (fun x => negb (mem_nat x us)) t) by (simpl; rewrite Hh; reflexivity).
  rewrite Hp, Hf.
  pose proof (places_of_prefix us t 1) as HP.
  destruct (places_of us 1 t) as [|[x g] rest].
  - rewrite HP. reflexivity.
  - destruct HP as (Hle & Heq). cbn [first_gap firstn]. rewrite Heq. reflexivity.
Qed.

(* re-inserting the removed stops at their recorded gaps restores the route *)
Lemma insert_places_places_of (us : list nat) :
  forall (l : list nat) (pos : nat) (extra : list (nat * nat)),
    Forall (fun p => snd p = pos) extra ->
    insert_places pos (filter (fun x => negb (mem_nat x us)) l) (extra ++ places_of us pos l)
    = map fst extra ++ l.
Proof.
  induction l as [|a l IH]; intros pos extra Hex.
  - simpl. rewrite !app_nil_r. reflexivity.
  - simpl. destruct (mem_nat a us) eqn:E; simpl.
    + replace (extra ++ (a, pos) :: places_of us pos l)
        with ((extra ++ [(a, pos)]) ++ places_of us pos l) by (rewrite <- app_assoc; reflexivity).
      rewrite IH.
      * rewrite map_app. simpl. rewrite <- app_assoc. reflexivity.
      * apply Forall_app. split; [exact Hex|]. constructor; [reflexivity|constructor].
    + assert (Hp : forall q, In q (places_of us (S pos) l) -> pos < snd q).
      { clear. revert pos. induction l as [|b l IHl]; intros pos q; simpl; [tauto|].
        destruct (mem_nat b us).
        - intros [<-|Hq]; [simpl; lia|]. apply IHl. exact Hq.
        - intros Hq. apply IHl in Hq. lia. }
      rewrite !filter_app.
      assert (H1 : filter (fun p => Nat.eqb (snd p) pos) extra = extra).
      { clear -Hex. induction Hex as [|p r Hp' Hr IHr]; simpl; [reflexivity|].
        rewrite Hp', Nat.eqb_refl, IHr. reflexivity. }
      assert (H2 : filter (fun p => negb (Nat.eqb (snd p) pos)) extra = []).
      { clear -Hex. induction Hex as [|p r Hp' Hr IHr]; simpl; [reflexivity|].
        rewrite Hp', Nat.eqb_refl. simpl. exact IHr. }
      rewrite H1, H2.
      rewrite filter_gap_eq_none, filter_gap_ne_all;
        try (apply Forall_forall; exact Hp).
      rewrite app_nil_r. simpl.
      f_equal. f_equal.
      apply (IH (S pos) []). constructor.
Qed.

Lemma insert_places_places_of0 (us : list nat) (l : list nat) :
  insert_places 0 (filter (fun x => negb (mem_nat x us)) l) (places_of us 0 l) = l.
Proof. apply (insert_places_places_of us l 0 []). constructor. Qed.
