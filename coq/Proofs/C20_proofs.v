(* Lemmas behind Props/C20.v: the output (Model/Format.v) is a faithful
   projection of the solution. *)

From Coq Require Import List ZArith Bool Arith Lia Permutation Sorted.
From NR Require Import Model.Engine Model.Format Proofs.Engine_lists Proofs.Engine_inv
     Proofs.Engine_spec.
Import ListNotations.
Open Scope Z_scope.

(* ================================================================== *)
(* Every input stop is listed exactly once                             *)
(* ================================================================== *)

Lemma NoDup_flat_map_nth {A B} (f : A -> list B) (d : A) (L : list A) :
  NoDup (concat (map f L)) ->
  forall l : list nat, NoDup l -> (forall u, In u l -> (u < length L)%nat) ->
    NoDup (flat_map (fun u => f (nth u L d)) l).
Proof.
  intros HL. induction l as [|a l IH]; intros Hnd Hlt; cbn [flat_map]; [constructor|].
  inversion Hnd as [|a' l' Hna Hnd']; subst.
  apply NoDup_app_iff. split; [|split].
  - apply (NoDup_concat_elem _ _ HL). apply in_map. apply nth_In. apply Hlt. left; reflexivity.
  - apply IH; [exact Hnd'|]. intros u Hu. apply Hlt. right; exact Hu.
  - intros x Hxa Hxl. apply in_flat_map in Hxl. destruct Hxl as (u' & Hu' & Hxu').
    apply (NoDup_concat_nth f d L a u' x HL).
    + apply Hlt. left; reflexivity.
    + apply Hlt. right; exact Hu'.
    + intros ->. exact (Hna Hu').
    + exact Hxa.
    + exact Hxu'.
Qed.

(* every input stop belongs to a unit *)
Lemma stop_has_unit (inp : input) (x : nat) :
  wf_input inp -> (x < nstops inp)%nat ->
  exists u, (u < nunits inp)%nat /\ In x (iu_stops (get_unit inp u)).
Proof.
  intros (_ & Hcover & _) Hx. apply Hcover in Hx. apply in_concat in Hx.
  destruct Hx as (l & Hl & Hxl). apply in_map_iff in Hl. destruct Hl as (un & <- & Hun).
  destruct (In_nth _ _ (mkIUnit [] []) Hun) as (u & Hu & Hn).
  exists u. split; [exact Hu|]. unfold get_unit. rewrite Hn. exact Hxl.
Qed.

Theorem C20_each_input_stop_once_proof : forall inp s,
  wf_input inp -> reachable inp s ->
  Permutation (out_unplanned (format_solution inp s) ++ interior_stops s)
              (seq 0 (nstops inp)).
Proof.
  intros inp s Hwf Hr. pose proof (reachable_invT inp s Hwf Hr) as HI.
  pose proof HI as ((Hc & _ & _ & (Hni & _ & Hnu & _ & Hper & Hb)) & _).
  pose proof Hc as (Hlen & _).
  cbn [format_solution out_unplanned].
  set (U := flat_map (fun u => iu_stops (get_unit inp u)) (st_unplanned s)).
  assert (HinU : forall x, In x U <->
            exists u, In u (st_unplanned s) /\ In x (iu_stops (get_unit inp u))).
  { intros x. unfold U. apply in_flat_map. }
  assert (Hoff : forall x, In x U -> stop_on_route s x = false).
  { intros x Hx. apply HinU in Hx. destruct Hx as (u & Hu & Hxu).
    assert (Hult : (u < nunits inp)%nat) by (apply Hb; right; exact Hu).
    destruct (Hper u Hult) as (_ & B & [C|C]).
    - apply B in Hu. congruence.
    - exact (C x Hxu). }
  apply NoDup_Permutation.
  - apply NoDup_app_iff. split; [|split; [exact Hni|]].
    + unfold U, get_unit.
      apply (NoDup_flat_map_nth iu_stops (mkIUnit [] []) (in_units inp) (proj1 Hwf) _ Hnu).
      intros u Hu. apply Hb. right; exact Hu.
    + intros x HxU Hxi. apply Hoff in HxU.
      apply (In_interior_stops inp s x Hc) in Hxi. destruct Hxi as (_ & v & Hv & Hin).
      assert (Hon : stop_on_route s x = true).
      { apply stop_on_route_iff. exists v. rewrite Hlen. split; assumption. }
      congruence.
  - apply seq_NoDup.
  - intros x. rewrite in_seq, in_app_iff. split.
    + intros [Hx|Hx]; (split; [lia|cbn [Nat.add]]).
      * apply HinU in Hx. destruct Hx as (u & Hu & Hxu).
        apply (unit_stops_lt inp u x Hwf); [apply Hb; right; exact Hu|exact Hxu].
      * apply (In_interior_stops inp s x Hc) in Hx. exact (proj1 Hx).
    + intros (_ & Hx). cbn [Nat.add] in Hx.
      destruct (stop_has_unit inp x Hwf Hx) as (u & Hu & Hxu).
      destruct (Hper u Hu) as (_ & B & _).
      destruct (unit_planned inp s u) eqn:Epl.
      * right. apply unit_planned_iff in Epl. destruct Epl as (_ & Hall).
        specialize (Hall x Hxu). apply stop_on_route_iff in Hall.
        destruct Hall as (v & Hv & Hin). rewrite Hlen in Hv.
        apply (In_interior_stops inp s x Hc). split; [exact Hx|]. exists v. split; assumption.
      * left. apply HinU. exists u. split; [apply B; reflexivity|exact Hxu].
Qed.

(* ================================================================== *)
(* The listed stops of a vehicle                                       *)
(* ================================================================== *)

(* the stop outputs that are listed for route r entered from cell p *)
Definition listed (inp : input) (v : nat) (ht : bool) (p : cell) (r : list cell) : list stop_out :=
  filter (fun s => loc_valid inp (so_stop s))
         (map (fun pc => stop_output inp v ht (fst pc) (snd pc)) (with_prev p r)).

Lemma listed_nil (inp : input) (v : nat) (ht : bool) (p : cell) : listed inp v ht p [] = [].
Proof. reflexivity. Qed.

Lemma listed_cons (inp : input) (v : nat) (ht : bool) (p c : cell) (r : list cell) :
  listed inp v ht p (c :: r) =
  if loc_valid inp (c_stop c) then stop_output inp v ht p c :: listed inp v ht c r
  else listed inp v ht c r.
Proof. reflexivity. Qed.

Lemma vehicle_output_eq (inp : input) (v : nat) (r : list cell) :
  let first := hd (last_cell r) r in
  let L := listed inp v (negb (c_start first =? 0)) first r in
  vehicle_output inp v r =
  mkVehOut (accumulate_distance 0 L)
           (c_end (last_cell r) - c_start first) (c_cumtravel (last_cell r))
           (sumZ (map so_distance L)) (sumZ (map so_duration L))
           (c_end (last_cell r) - c_start first - c_cumtravel (last_cell r)
            - sumZ (map so_duration L)).
Proof. reflexivity. Qed.

Lemma accumulate_values :
  forall (l : list stop_out) (acc : Z),
    map (fun o => (so_stop o, so_travel o, so_cumtravel o, so_duration o, so_waiting o))
        (accumulate_distance acc l)
    = map (fun o => (so_stop o, so_travel o, so_cumtravel o, so_duration o, so_waiting o)) l.
Proof.
  induction l as [|o l IH]; intros acc; [reflexivity|].
  cbn [accumulate_distance map so_stop so_travel so_cumtravel so_duration so_waiting].
  rewrite IH. reflexivity.
Qed.

Lemma accumulate_stops :
  forall (l : list stop_out) (acc : Z), map so_stop (accumulate_distance acc l) = map so_stop l.
Proof.
  induction l as [|o l IH]; intros acc; [reflexivity|].
  cbn [accumulate_distance map so_stop]. rewrite IH. reflexivity.
Qed.

Lemma accumulate_durations :
  forall (l : list stop_out) (acc : Z),
    map so_duration (accumulate_distance acc l) = map so_duration l.
Proof.
  induction l as [|o l IH]; intros acc; [reflexivity|].
  cbn [accumulate_distance map so_duration]. rewrite IH. reflexivity.
Qed.

Lemma listed_stops (inp : input) (v : nat) (ht : bool) :
  forall (r : list cell) (p : cell),
    map so_stop (listed inp v ht p r) = filter (loc_valid inp) (route_stops r).
Proof.
  induction r as [|c r IH]; intros p; [reflexivity|].
  rewrite listed_cons. unfold route_stops. cbn [map filter].
  destruct (loc_valid inp (c_stop c)); [cbn [map]; f_equal|]; apply IH.
Qed.

Theorem C20_listed_stops_proof : forall inp v r,
  map so_stop (vo_route (vehicle_output inp v r)) = filter (loc_valid inp) (route_stops r).
Proof.
  intros inp v r. rewrite vehicle_output_eq. cbn [vo_route].
  rewrite accumulate_stops. apply listed_stops.
Qed.

(* the vehicles of the output are the routes of the solution, in order *)
Theorem C20_vehicles_proof : forall inp s,
  length (out_vehicles (format_solution inp s)) = length (st_routes s) /\
  forall v d, (v < length (st_routes s))%nat ->
    nth v (out_vehicles (format_solution inp s)) d = vehicle_output inp v (get_route s v).
Proof.
  intros inp s. cbn [format_solution out_vehicles]. split.
  - rewrite map_length, combine_length, length_seqn. apply Nat.min_id.
  - intros v d Hv.
    set (F := fun vr : nat * list cell => vehicle_output inp (fst vr) (snd vr)).
    rewrite (nth_indep _ d (F (0%nat, [])))
      by (rewrite map_length, combine_length, length_seqn, Nat.min_id; exact Hv).
    rewrite map_nth. rewrite combine_nth by apply length_seqn.
    rewrite nth_seqn by exact Hv. reflexivity.
Qed.

(* ================================================================== *)
(* The reported values                                                 *)
(* ================================================================== *)

Lemma listed_values_def (inp : input) (v : nat) (ht : bool) :
  forall (r : list cell) (p : cell),
    map (fun o => (so_stop o, so_travel o, so_cumtravel o, so_duration o, so_waiting o))
        (listed inp v ht p r)
    = map (fun pc => (c_stop (snd pc), c_cumtravel (snd pc) - c_cumtravel (fst pc),
                      c_cumtravel (snd pc), c_end (snd pc) - c_start (snd pc),
                      c_start (snd pc) - c_arrival (snd pc)))
          (filter (fun pc => loc_valid inp (c_stop (snd pc))) (with_prev p r)).
Proof.
  induction r as [|c r IH]; intros p; [reflexivity|].
  rewrite listed_cons. cbn [with_prev filter snd].
  destruct (loc_valid inp (c_stop c)); [|apply IH].
  cbn [map fst snd]. rewrite IH. reflexivity.
Qed.

(* by definition: per listed stop the cumulative travel, the increment of the
   cumulative travel over the predecessor, end - start and start - arrival *)
Theorem C20_values_by_definition_proof : forall inp v r,
  map (fun o => (so_stop o, so_travel o, so_cumtravel o, so_duration o, so_waiting o))
      (vo_route (vehicle_output inp v r))
  = map (fun pc => (c_stop (snd pc), c_cumtravel (snd pc) - c_cumtravel (fst pc),
                    c_cumtravel (snd pc), c_end (snd pc) - c_start (snd pc),
                    c_start (snd pc) - c_arrival (snd pc)))
        (filter (fun pc => loc_valid inp (c_stop (snd pc)))
                (with_prev (hd (last_cell r) r) r)).
Proof.
  intros inp v r. rewrite vehicle_output_eq. cbn [vo_route].
  rewrite accumulate_values. apply listed_values_def.
Qed.

Lemma with_prev_linked (inp : input) (v : nat) :
  forall (rest : list nat) (p : cell),
    Forall (fun pc => c_cumtravel (snd pc) = c_cumtravel (fst pc) + c_travel (snd pc))
           (with_prev p (cells_from inp v p rest)).
Proof.
  induction rest as [|x rest IH]; intros p; cbn [cells_from with_prev]; constructor.
  - cbn [fst snd]. apply nc_cumtravel.
  - apply IH.
Qed.

Lemma map_filter_with_prev {X} (g : cell * cell -> X) (g' : cell -> X) (q : cell -> bool) :
  forall (r : list cell) (p : cell),
    Forall (fun pc => g pc = g' (snd pc)) (with_prev p r) ->
    map g (filter (fun pc => q (snd pc)) (with_prev p r)) = map g' (filter q r).
Proof.
  induction r as [|c r IH]; intros p H; [reflexivity|].
  cbn [with_prev] in H. inversion H as [|pc l Hpc Hl]; subst.
  cbn [with_prev filter snd]. destruct (q c); [|exact (IH c Hl)].
  cbn [map]. rewrite Hpc, (IH c Hl). reflexivity.
Qed.

Lemma first_cell_zero (inp : input) (v : nat) :
  c_travel (first_cell inp v) = 0 /\ c_cumtravel (first_cell inp v) = 0 /\
  c_end (first_cell inp v) = c_start (first_cell inp v) /\
  c_arrival (first_cell inp v) = c_start (first_cell inp v).
Proof. unfold first_cell. cbn [c_travel c_cumtravel c_end c_start c_arrival]. auto. Qed.

(* the route of a reachable state, opened up *)
Lemma route_open (inp : input) (s : state) (v : nat) :
  InvT inp s -> (v < nveh inp)%nat ->
  exists rest, rest <> [] /\
    get_route s v = first_cell inp v :: cells_from inp v (first_cell inp v) rest.
Proof.
  intros HI Hv. pose proof (route_is_from_scratch inp s v HI Hv) as Hfs.
  destruct (route_has_shape inp s v HI Hv) as (mid & Hst & _).
  rewrite Hst in Hfs. cbn [from_scratch] in Hfs.
  exists (mid ++ [last_stop inp v]). split; [|exact Hfs]. destruct mid; discriminate.
Qed.

Theorem C20_values_are_the_solutions_proof : forall inp s v,
  wf_input inp -> reachable inp s -> (v < nveh inp)%nat ->
  map (fun o => (so_stop o, so_travel o, so_cumtravel o, so_duration o, so_waiting o))
      (vo_route (vehicle_output inp v (get_route s v)))
  = map (fun c => (c_stop c, c_travel c, c_cumtravel c, c_end c - c_start c,
                   c_start c - c_arrival c))
        (filter (fun c => loc_valid inp (c_stop c)) (get_route s v)).
Proof.
  intros inp s v Hwf Hr Hv. pose proof (reachable_invT inp s Hwf Hr) as HI.
  rewrite C20_values_by_definition_proof.
  destruct (route_open inp s v HI Hv) as (rest & _ & E). rewrite E. cbn [hd].
  apply (map_filter_with_prev _ _ (fun c => loc_valid inp (c_stop c))).
  destruct (first_cell_zero inp v) as (Z1 & Z2 & _).
  cbn [with_prev]. constructor.
  - cbn [fst snd]. rewrite Z1, Z2. reflexivity.
  - eapply Forall_impl; [|exact (with_prev_linked inp v rest (first_cell inp v))].
    intros [p c]. cbn [fst snd]. intros H.
    replace (c_cumtravel c - c_cumtravel p) with (c_travel c) by lia. reflexivity.
Qed.

(* ================================================================== *)
(* Total waiting                                                       *)
(* ================================================================== *)

Lemma sumZ_cons (x : Z) (l : list Z) : sumZ (x :: l) = x + sumZ l.
Proof. reflexivity. Qed.

(* a stop without a valid location is a vehicle start / end stop and takes no
   time *)
Lemma stop_duration_invalid (inp : input) (x : nat) :
  loc_valid inp x = false -> stop_duration inp x = 0.
Proof.
  unfold loc_valid, stop_duration.
  destruct (is_input_stop inp x); [discriminate|].
  destruct (o_dis_durations (in_opts inp)); reflexivity.
Qed.

Lemma loc_invalid_not_input (inp : input) (x : nat) :
  loc_valid inp x = false -> (nstops inp <= x)%nat.
Proof.
  unfold loc_valid, is_input_stop. destruct (x <? nstops inp)%nat eqn:E; [discriminate|].
  intros _. apply Nat.ltb_ge in E. exact E.
Qed.

(* end - cumulative travel grows by wait + duration at every step *)
Lemma telescope (inp : input) (v : nat) :
  forall (rest : list nat) (p : cell),
    let cs := cells_from inp v p rest in
    (c_end (last cs p) - c_cumtravel (last cs p)) - (c_end p - c_cumtravel p)
    = sumZ (map (fun c => c_start c - c_arrival c) cs)
      + sumZ (map (fun c => c_end c - c_start c) cs).
Proof.
  induction rest as [|x rest IH]; intros p; cbv zeta.
  - cbn [cells_from last map]. unfold sumZ. cbn [fold_right]. lia.
  - cbn [cells_from]. rewrite last_cons_default. cbn [map]. rewrite !sumZ_cons.
    specialize (IH (next_cell inp v p x)). cbv zeta in IH.
    pose proof (nc_cumtravel inp v p x) as H1. pose proof (nc_arrival inp v p x) as H2.
    lia.
Qed.

(* ... whatever stop is in front of it: it has no own duration and (wf_input)
   it is in no duration group *)
Lemma stop_duration_at_invalid (inp : input) (p x : nat) :
  wf_input inp -> loc_valid inp x = false -> stop_duration_at inp p x = 0.
Proof.
  intros Hwf H. apply (stop_duration_at_not_input inp p x Hwf).
  exact (loc_invalid_not_input inp x H).
Qed.

(* ... and on whatever vehicle: a multiple of 0 is 0 *)
Lemma stop_duration_on_invalid (inp : input) (v p x : nat) :
  wf_input inp -> loc_valid inp x = false -> stop_duration_on inp v p x = 0.
Proof.
  intros Hwf H. apply (stop_duration_on_not_input inp v p x Hwf).
  exact (loc_invalid_not_input inp x H).
Qed.

(* the time spent at a stop is its duration after the stop in front of it *)
Lemma cells_from_duration (inp : input) (v : nat) :
  forall (rest : list nat) (p : cell),
    Forall (fun c => exists q, c_end c - c_start c = stop_duration_on inp v q (c_stop c))
           (cells_from inp v p rest).
Proof.
  induction rest as [|x rest IH]; intros p; cbn [cells_from]; constructor; [|apply IH].
  exists (c_stop p). rewrite (nc_end inp v p x), c_stop_next_cell. lia.
Qed.

Lemma listed_duration (inp : input) (v : nat) (ht : bool) :
  forall (r : list cell) (p : cell),
    sumZ (map so_duration (listed inp v ht p r))
    = sumZ (map (fun c => if loc_valid inp (c_stop c) then c_end c - c_start c else 0) r).
Proof.
  induction r as [|c r IH]; intros p; [reflexivity|].
  rewrite listed_cons. cbn [map]. rewrite sumZ_cons.
  destruct (loc_valid inp (c_stop c)).
  - cbn [map]. rewrite sumZ_cons, IH. reflexivity.
  - rewrite IH. lia.
Qed.

(* the stops duration reported for a vehicle is the total end - start over
   all its cells, listed or not *)
Lemma listed_duration_route (inp : input) (v : nat) (ht : bool) (rest : list nat) :
  wf_input inp ->
  let f := first_cell inp v in
  sumZ (map so_duration (listed inp v ht f (f :: cells_from inp v f rest)))
  = sumZ (map (fun c => c_end c - c_start c) (cells_from inp v f rest)).
Proof.
  intros Hwf. cbv zeta. rewrite listed_duration. cbn [map]. rewrite sumZ_cons.
  destruct (first_cell_zero inp v) as (_ & _ & Z3 & _).
  assert (E0 : (if loc_valid inp (c_stop (first_cell inp v))
                then c_end (first_cell inp v) - c_start (first_cell inp v) else 0) = 0).
  { destruct (loc_valid inp (c_stop (first_cell inp v))); lia. }
  rewrite E0. cbn [Z.add]. f_equal. apply map_ext_in. intros c Hc.
  destruct (loc_valid inp (c_stop c)) eqn:El; [reflexivity|].
  pose proof (cells_from_duration inp v rest (first_cell inp v)) as Hd.
  rewrite Forall_forall in Hd. destruct (Hd c Hc) as (q & Eq).
  rewrite Eq, (stop_duration_on_invalid inp v q _ Hwf El). reflexivity.
Qed.

Theorem C20_waiting_is_sum_of_waits_proof : forall inp s v,
  wf_input inp -> reachable inp s -> (v < nveh inp)%nat ->
  vo_waiting (vehicle_output inp v (get_route s v))
  = sumZ (map (fun c => c_start c - c_arrival c) (tl (get_route s v))).
Proof.
  intros inp s v Hwf Hr Hv. pose proof (reachable_invT inp s Hwf Hr) as HI.
  destruct (route_open inp s v HI Hv) as (rest & _ & E). rewrite E.
  rewrite vehicle_output_eq. cbn [vo_waiting hd tl].
  rewrite (listed_duration_route inp v _ rest Hwf).
  unfold last_cell. rewrite last_cons_default.
  pose proof (telescope inp v rest (first_cell inp v)) as T. cbv zeta in T.
  destruct (first_cell_zero inp v) as (_ & Z2 & Z3 & _). lia.
Qed.

(* the other aggregates of a vehicle, by definition *)
Theorem C20_vehicle_aggregates_proof : forall inp v r,
  vo_duration (vehicle_output inp v r) = c_end (last_cell r) - c_start (hd (last_cell r) r) /\
  vo_travel (vehicle_output inp v r) = c_cumtravel (last_cell r) /\
  vo_stops_duration (vehicle_output inp v r)
  = sumZ (map so_duration (vo_route (vehicle_output inp v r))) /\
  vo_waiting (vehicle_output inp v r)
  = vo_duration (vehicle_output inp v r) - vo_travel (vehicle_output inp v r)
    - vo_stops_duration (vehicle_output inp v r).
Proof.
  intros inp v r. rewrite vehicle_output_eq.
  cbn [vo_duration vo_travel vo_stops_duration vo_waiting vo_route].
  split; [reflexivity|]. split; [reflexivity|]. split; [|reflexivity].
  rewrite accumulate_durations. reflexivity.
Qed.

(* ================================================================== *)
(* Objective                                                           *)
(* ================================================================== *)

Theorem C20_total_is_sum_proof : forall inp s,
  wf_input inp -> reachable inp s ->
  out_total (format_solution inp s) = sumZ (out_terms (format_solution inp s)) /\
  out_terms (format_solution inp s) = score_terms inp s.
Proof.
  intros inp s Hwf Hr. cbn [format_solution out_total out_terms].
  destruct (reachable_invT inp s Hwf Hr) as ((_ & _ & (H1 & H2) & _) & _).
  split; assumption.
Qed.

(* ================================================================== *)
(* Non-vacuity                                                         *)
(* ================================================================== *)

(* on ex2_s2 (vehicle 0: first, 0, 1, 2, last; vehicle 1 empty) *)
Example ex20_output :
  out_unplanned (format_solution ex2_inp ex2_s2) = [] /\
  interior_stops ex2_s2 = [0; 1; 2]%nat /\
  map so_stop (vo_route (vehicle_output ex2_inp 0 (get_route ex2_s2 0))) = [3; 0; 1; 2; 4]%nat /\
  vo_waiting (vehicle_output ex2_inp 0 (get_route ex2_s2 0)) = 540 /\
  map so_waiting (vo_route (vehicle_output ex2_inp 0 (get_route ex2_s2 0))) = [0; 540; 0; 0; 0].
Proof. vm_compute. repeat split. Qed.

(* a vehicle without start / end location: its first and last stops are not
   listed, yet the waiting total is still the sum of the waits *)
Definition ex20_inp : input :=
  mkInput [] [mkIStop [] 10 [(3600, 7200)] None 100 [] None 0 0]
          [mkIVehicle None [] 0 None None None None None [] 0 false false 0 0 1 1]
          [mkIUnit [0%nat] []]
          [[0; 60; 60]; [60; 0; 60]; [60; 60; 0]] [[0; 60; 60]; [60; 0; 60]; [60; 60; 0]]
          0 ex2_opts [].
Definition ex20_s0 : state :=
  Eval vm_compute in match new_solution ex20_inp with Some s => s | None => ex_dummy end.
Definition ex20_mv : move := mkMove 0 0 [(0, 1)]%nat.
Definition ex20_s1 : state := Eval vm_compute in fst (exec_move ex20_inp ex20_s0 ex20_mv).

Example ex20_wf : wf_input ex20_inp.
Proof.
  split; [|split; [|split; [|split; [exact (Forall_nil _)|mult_wf]]]].
  - vm_compute. constructor; [simpl; tauto|constructor].
  - intros x. vm_compute. lia.
  - intros u Hu. vm_compute in Hu. destruct Hu as [<-|[]]; discriminate.
Qed.

Example ex20_reachable : reachable ex20_inp ex20_s1.
Proof.
  exists ex20_s0, [OpPlan ex20_mv]. split; [vm_compute; reflexivity|]. split.
  - cbn [fresh op_ok]. split; [|exact I]. unfold move_ok. vm_compute.
    split; [lia|]. split; [lia|]. split; [apply Permutation_refl|]. split; [discriminate|].
    split; repeat constructor.
  - right. left. vm_compute. reflexivity.
Qed.

Example ex20_unlisted_ends :
  route_stops (get_route ex20_s1 0) = [1; 0; 2]%nat /\
  map so_stop (vo_route (vehicle_output ex20_inp 0 (get_route ex20_s1 0))) = [0%nat] /\
  vo_waiting (vehicle_output ex20_inp 0 (get_route ex20_s1 0)) = 3600.
Proof. vm_compute. repeat split. Qed.

Example ex20_waiting_applies :
  vo_waiting (vehicle_output ex20_inp 0 (get_route ex20_s1 0))
  = sumZ (map (fun c => c_start c - c_arrival c) (tl (get_route ex20_s1 0))).
Proof.
  apply (C20_waiting_is_sum_of_waits_proof ex20_inp ex20_s1 0 ex20_wf ex20_reachable).
  vm_compute. lia.
Qed.

Print Assumptions C20_each_input_stop_once_proof.
Print Assumptions C20_listed_stops_proof.
Print Assumptions C20_vehicles_proof.
Print Assumptions C20_values_by_definition_proof.
Print Assumptions C20_values_are_the_solutions_proof.
Print Assumptions C20_waiting_is_sum_of_waits_proof.
Print Assumptions C20_vehicle_aggregates_proof.
Print Assumptions C20_total_is_sum_proof.
Print Assumptions ex20_output.
Print Assumptions ex20_waiting_applies.
