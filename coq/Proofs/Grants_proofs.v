(* Schedule independence of the iteration grants of the parallel solver
   (NR.Model.SolverLoop section 3).

   The differential test drives the Go solver with scripted per-run allotments
   and compares the multiset of granted iterations and the final iteration
   count with the model run on ONE sequential schedule.  The lemmas here show
   that these observables do not depend on the schedule.

   Part A  exact accounting: sum of the grants = N - max 0 iterationsLeft
   Part B  ghost: the enabled grabs of a schedule, in order (index, opt, grant);
           the grants are the clamped allotments in grab order and the nonzero
           grants of the state are a permutation of them
   Part C  canonical grant list [canon], arithmetic
   Part D  uniform allotment a: multiset = a, ..., a, N mod a
   Part E  runs = 1: grabs happen in worker-index order
   Part F  concrete schedules (non-vacuity)

   Props/Grants.v only restates the theorems proved here. *)

From Coq Require Import List ZArith Bool Lia Arith Permutation.
From NR Require Import Model.SolverLoop Proofs.SolverLoop_proofs.
Import ListNotations.
Open Scope Z_scope.

(* ================================================================== *)
(* 0. Step characterisation                                            *)
(* ================================================================== *)

Definition is_new (w : wphase) : bool := match w with WNew => true | _ => false end.
(* the worker has executed its budget grab *)
Definition grabbed (w : wphase) : bool := negb (is_new w).

(* effect of an enabled action on the worker list *)
Lemma pstep_workers : forall st a st',
  pstep st a = Some st' ->
  match a with
  | ASpawn => p_workers st' = p_workers st ++ [WNew] /\
              (active_count (p_workers st) < p_runs st)%nat
  | AGrab r opt =>
      exists l1 l2 w, p_workers st = l1 ++ WNew :: l2 /\ length l1 = r /\
        p_workers st' = l1 ++ w :: l2 /\ is_new w = false /\
        w_granted w = Z.max 0 (Z.min (p_left st) opt) /\ 0 <= opt
  | AIterate r | AProduce r _ | AForward r | AFinish r =>
      exists l1 l2 w w', p_workers st = l1 ++ w :: l2 /\ length l1 = r /\
        p_workers st' = l1 ++ w' :: l2 /\ is_new w = false /\ is_new w' = false /\
        is_active w = true /\ w_granted w' = w_granted w
  | _ => p_workers st' = p_workers st
  end.
Proof.
  intros st a st' H.
  destruct a; step_inv H; bool_hyps; try split_w; try reflexivity.
  (* ASpawn *)
  1: split; [reflexivity|assumption].
  (* AGrab: parked / clamped grant / full grant *)
  1-3: exists l1, l2; eexists; split; [exact Ews|]; split; [exact Len|];
       split; [reflexivity|]; cbn [is_new w_granted]; split; [reflexivity|];
       split; lia.
  (* in-place changes of a worker that has grabbed *)
  all: exists l1, l2; do 2 eexists; split; [exact Ews|]; split; [exact Len|];
       split; [reflexivity|]; cbn [is_new is_active w_granted]; repeat split; reflexivity.
Qed.

Lemma pstep_fields : forall st a st',
  pstep st a = Some st' ->
  p_left st' = match a with AGrab _ opt => p_left st - opt | _ => p_left st end /\
  p_runs st' = p_runs st /\ p_iterations st' = p_iterations st.
Proof.
  intros st a st' H. destruct a; step_inv H; repeat split; reflexivity.
Qed.

(* lifting a step invariant along schedules whose actions satisfy [A] *)
Lemma prun_invariant_on : forall (A : action -> Prop) (P : pstate -> Prop),
  (forall st a st', A a -> pstep st a = Some st' -> P st -> P st') ->
  forall sched st, Forall A sched -> P st -> P (prun st sched).
Proof.
  intros A P Hstep. induction sched as [|a k IH]; intros st HA HP; cbn [prun]; [exact HP|].
  inversion HA as [|? ? Ha Hk]; subst.
  destruct (pstep st a) as [st'|] eqn:E; [|apply IH; assumption].
  apply IH; [exact Hk|]. eapply Hstep; eauto.
Qed.

(* ================================================================== *)
(* A. Exact accounting of the grants                                   *)
(* ================================================================== *)

Definition grant_exact (N : Z) (st : pstate) : Prop :=
  sumZ (map w_granted (p_workers st)) = N - Z.max 0 (p_left st).

Lemma grant_exact_step : forall N st a st',
  pstep st a = Some st' -> grant_exact N st -> grant_exact N st'.
Proof.
  intros N st a st' H Hg. unfold grant_exact in *.
  destruct (pstep_fields _ _ _ H) as (Hl & _ & _). rewrite Hl.
  pose proof (pstep_workers _ _ _ H) as W.
  destruct a;
    try (rewrite W; exact Hg);
    try (destruct W as (l1 & l2 & w & w' & E & _ & E' & _ & _ & _ & G);
         rewrite E in Hg; rewrite E'; list_norm; lia).
  - destruct W as [E _]. rewrite E. list_norm. lia.
  - destruct W as (l1 & l2 & w & E & _ & E' & _ & G & Ho).
    rewrite E in Hg. rewrite E'. list_norm. lia.
Qed.

Lemma grant_exact_prun : forall N runs det s0 starts sched,
  0 <= N -> grant_exact N (prun (pinit N runs det s0 starts) sched).
Proof.
  intros. apply (prun_invariant (grant_exact N)).
  - intros st a st' Hs. apply grant_exact_step with (a := a). exact Hs.
  - unfold grant_exact, pinit. psimpl. cbn. lia.
Qed.

(* ================================================================== *)
(* B. Ghost: the grabs of a schedule, in the order they happened       *)
(* ================================================================== *)

Definition fpos (l : list Z) : list Z := filter (fun g => 0 <? g) l.
(* nonzero grants of a worker list, in worker-index order *)
Definition posg (ws : list wphase) : list Z := fpos (map w_granted ws).

(* the grant held by worker r *)
Definition grant_at (st : pstate) (r : nat) : Z :=
  match nth_error (p_workers st) r with Some w => w_granted w | None => 0 end.

(* (worker index, requested allotment, obtained grant) of every ENABLED grab *)
Fixpoint pgrabs (st : pstate) (sched : list action) : list (nat * Z * Z) :=
  match sched with
  | [] => []
  | x :: rest =>
      match pstep st x with
      | Some st' => match x with
                    | AGrab r opt => (r, opt, grant_at st' r) :: pgrabs st' rest
                    | _ => pgrabs st' rest
                    end
      | None => pgrabs st rest
      end
  end.

Definition grab_idx (l : list (nat * Z * Z)) : list nat := map (fun t => fst (fst t)) l.
Definition grab_opts (l : list (nat * Z * Z)) : list Z := map (fun t => snd (fst t)) l.
Definition grab_grants (l : list (nat * Z * Z)) : list Z := map snd l.

(* iterationsLeft.Add(-opt) and the three-way branch, as a function of the
   allotments in grab order *)
Fixpoint clamp (left : Z) (opts : list Z) : list Z :=
  match opts with
  | [] => []
  | o :: os => Z.max 0 (Z.min left o) :: clamp (left - o) os
  end.

Lemma grant_at_mid : forall st l1 w l2,
  p_workers st = l1 ++ w :: l2 -> grant_at st (length l1) = w_granted w.
Proof. intros st l1 w l2 E. unfold grant_at. rewrite E, nth_error_mid. reflexivity. Qed.

(* one step of the ghost *)
Definition step_grab (a : action) (st' : pstate) : list (nat * Z * Z) :=
  match a with AGrab r opt => [(r, opt, grant_at st' r)] | _ => [] end.

Lemma pgrabs_cons : forall st a k st',
  pstep st a = Some st' -> pgrabs st (a :: k) = step_grab a st' ++ pgrabs st' k.
Proof. intros st a k st' E. cbn [pgrabs]. rewrite E. destruct a; reflexivity. Qed.

Lemma pgrabs_skip : forall st a k, pstep st a = None -> pgrabs st (a :: k) = pgrabs st k.
Proof. intros st a k E. cbn [pgrabs]. rewrite E. reflexivity. Qed.

Lemma prun_cons : forall st a k st', pstep st a = Some st' -> prun st (a :: k) = prun st' k.
Proof. intros st a k st' E. cbn [prun]. rewrite E. reflexivity. Qed.

Lemma prun_skip : forall st a k, pstep st a = None -> prun st (a :: k) = prun st k.
Proof. intros st a k E. cbn [prun]. rewrite E. reflexivity. Qed.

(* what an enabled step contributes *)
Lemma step_grab_spec : forall st a st',
  pstep st a = Some st' ->
  grab_opts (step_grab a st') = match a with AGrab _ opt => [opt] | _ => [] end /\
  grab_grants (step_grab a st') =
    match a with AGrab _ opt => [Z.max 0 (Z.min (p_left st) opt)] | _ => [] end /\
  Forall (fun o => 0 <= o) (grab_opts (step_grab a st')).
Proof.
  intros st a st' H. pose proof (pstep_workers _ _ _ H) as W.
  destruct a; cbn [step_grab grab_opts grab_grants map fst snd];
    try (repeat split; constructor).
  destruct W as (l1 & l2 & w & E & L & E' & _ & G & Ho). subst r.
  rewrite (grant_at_mid _ _ _ _ E'), G. repeat split. constructor; [exact Ho|constructor].
Qed.

(* iterationsLeft = initial value - everything requested so far *)
Lemma pgrabs_left : forall sched st,
  p_left (prun st sched) = p_left st - sumZ (grab_opts (pgrabs st sched)).
Proof.
  induction sched as [|a k IH]; intros st; [cbn; lia|].
  destruct (pstep st a) as [st'|] eqn:E.
  - rewrite (prun_cons _ _ _ _ E), (pgrabs_cons _ _ _ _ E), IH.
    destruct (pstep_fields _ _ _ E) as (Hl & _ & _).
    destruct (step_grab_spec _ _ _ E) as (Ho & _ & _).
    unfold grab_opts in *. rewrite map_app, sumZ_app, Ho, Hl. destruct a; cbn; lia.
  - rewrite (prun_skip _ _ _ E), (pgrabs_skip _ _ _ E). apply IH.
Qed.

(* the grants are the clamped allotments, in grab order *)
Lemma pgrabs_clamp : forall sched st,
  grab_grants (pgrabs st sched) = clamp (p_left st) (grab_opts (pgrabs st sched)).
Proof.
  induction sched as [|a k IH]; intros st; [reflexivity|].
  destruct (pstep st a) as [st'|] eqn:E.
  - rewrite (pgrabs_cons _ _ _ _ E).
    destruct (pstep_fields _ _ _ E) as (Hl & _ & _).
    destruct (step_grab_spec _ _ _ E) as (Ho & Hg & _).
    unfold grab_opts, grab_grants in *. rewrite !map_app, Ho, Hg, IH, Hl.
    destruct a; reflexivity.
  - rewrite (pgrabs_skip _ _ _ E). apply IH.
Qed.

Lemma pgrabs_opts_nonneg : forall sched st,
  Forall (fun o => 0 <= o) (grab_opts (pgrabs st sched)).
Proof.
  induction sched as [|a k IH]; intros st; [constructor|].
  destruct (pstep st a) as [st'|] eqn:E.
  - rewrite (pgrabs_cons _ _ _ _ E).
    destruct (step_grab_spec _ _ _ E) as (_ & _ & Hn).
    unfold grab_opts in *. rewrite map_app. apply Forall_app. split; [exact Hn|apply IH].
  - rewrite (pgrabs_skip _ _ _ E). apply IH.
Qed.

(* --- the nonzero grants of the state are a permutation of the ghost --- *)

Lemma fpos_app : forall l1 l2, fpos (l1 ++ l2) = fpos l1 ++ fpos l2.
Proof. intros. unfold fpos. apply filter_app. Qed.

Lemma posg_app : forall l1 l2, posg (l1 ++ l2) = posg l1 ++ posg l2.
Proof. intros. unfold posg. rewrite map_app. apply fpos_app. Qed.

Lemma posg_cons : forall w l, posg (w :: l) = fpos [w_granted w] ++ posg l.
Proof. intros. change (w :: l) with ([w] ++ l). rewrite posg_app. reflexivity. Qed.

Lemma perm_step : forall st a st',
  pstep st a = Some st' ->
  Permutation (posg (p_workers st'))
              (posg (p_workers st) ++ fpos (grab_grants (step_grab a st'))).
Proof.
  intros st a st' H. pose proof (pstep_workers _ _ _ H) as W.
  destruct a; cbn [step_grab grab_grants map snd];
    try (rewrite W; change (fpos []) with (@nil Z); rewrite app_nil_r; reflexivity);
    try (destruct W as (l1 & l2 & w & w' & E & _ & E' & _ & _ & _ & G);
         rewrite E, E', !posg_app, !posg_cons, G;
         change (fpos []) with (@nil Z); rewrite app_nil_r; reflexivity).
  - destruct W as [E _]. rewrite E, posg_app.
    change (posg [WNew]) with (@nil Z). change (fpos []) with (@nil Z). reflexivity.
  - destruct W as (l1 & l2 & w & E & L & E' & _ & _ & _). subst r.
    rewrite (grant_at_mid _ _ _ _ E'), E, E', !posg_app, !posg_cons.
    cbn [w_granted]. change (fpos [0]) with (@nil Z). cbn [app].
    rewrite <- app_assoc. apply Permutation_app_head. apply Permutation_app_comm.
Qed.

Lemma pgrabs_perm : forall sched st,
  Permutation (posg (p_workers (prun st sched)))
              (posg (p_workers st) ++ fpos (grab_grants (pgrabs st sched))).
Proof.
  induction sched as [|a k IH]; intros st.
  - cbn. rewrite app_nil_r. reflexivity.
  - destruct (pstep st a) as [st'|] eqn:E.
    + rewrite (prun_cons _ _ _ _ E), (pgrabs_cons _ _ _ _ E).
      eapply perm_trans; [apply IH|].
      unfold grab_grants. rewrite map_app, fpos_app, app_assoc.
      apply Permutation_app_tail. apply (perm_step _ _ _ E).
    + rewrite (prun_skip _ _ _ E), (pgrabs_skip _ _ _ E). apply IH.
Qed.

(* ---------- Part 1 ---------- *)

Lemma Grants_sum_le_budget_proof : forall N runs det s0 starts sched,
  0 <= N ->
  let st := prun (pinit N runs det s0 starts) sched in
  let grabs := pgrabs (pinit N runs det s0 starts) sched in
  fold_right Z.add 0 (map w_granted (p_workers st)) = N - Z.max 0 (p_left st) /\
  fold_right Z.add 0 (map w_granted (p_workers st)) <= N /\
  p_left st = N - fold_right Z.add 0 (grab_opts grabs) /\
  grab_grants grabs = clamp N (grab_opts grabs) /\
  Permutation (filter (fun g => 0 <? g) (map w_granted (p_workers st)))
              (filter (fun g => 0 <? g) (grab_grants grabs)).
Proof.
  intros N runs det s0 starts sched HN st grabs.
  pose proof (grant_exact_prun N runs det s0 starts sched HN) as Hg.
  unfold grant_exact, sumZ in Hg. fold st in Hg.
  split; [exact Hg|]. split; [lia|].
  split; [apply (pgrabs_left sched (pinit N runs det s0 starts))|].
  split; [apply (pgrabs_clamp sched (pinit N runs det s0 starts))|].
  apply (pgrabs_perm sched (pinit N runs det s0 starts)).
Qed.

(* ================================================================== *)
(* C. The canonical (sequential) grant list                            *)
(* ================================================================== *)

(* grants obtained when workers r, r+1, ... grab one after the other with
   allotments allot r, allot (r+1), ...: full allotments while the budget
   lasts, then the remainder, then nothing.  [fuel] bounds the number of
   workers considered. *)
Fixpoint canon (left : Z) (allot : nat -> Z) (r : nat) (fuel : nat) : list Z :=
  match fuel with
  | O => []
  | S f => if left <=? 0 then []
           else Z.min left (allot r) :: canon (left - allot r) allot (S r) f
  end.

Lemma canon_nonpos : forall fuel left allot r, left <= 0 -> canon left allot r fuel = [].
Proof.
  intros fuel left allot r H. destruct fuel; cbn [canon]; [reflexivity|].
  destruct (Z.leb_spec left 0); [reflexivity|lia].
Qed.

(* the nonzero clamped grants of the allotments allot r .. allot (r+k-1) *)
Lemma fpos_clamp_canon : forall allot, (forall i, 0 < allot i) ->
  forall k left r, fpos (clamp left (map allot (seq r k))) = canon left allot r k.
Proof.
  intros allot Hpos. induction k as [|k IH]; intros left r; [reflexivity|].
  cbn [seq map clamp canon]. specialize (Hpos r) as Hr.
  change (?x :: ?l) with ([x] ++ l) at 1. rewrite fpos_app, IH.
  destruct (Z.leb_spec left 0) as [Hle|Hgt].
  - replace (Z.max 0 (Z.min left (allot r))) with 0 by lia.
    rewrite canon_nonpos by lia. reflexivity.
  - replace (Z.max 0 (Z.min left (allot r))) with (Z.min left (allot r)) by lia.
    unfold fpos. cbn [filter]. destruct (Z.ltb_spec 0 (Z.min left (allot r))); [reflexivity|lia].
Qed.

(* prefix property: fewer grabs give a prefix *)
Lemma canon_prefix : forall allot k m left r,
  canon left allot r k = firstn k (canon left allot r (k + m)).
Proof.
  intros allot. induction k as [|k IH]; intros m left r; [reflexivity|].
  cbn [canon Nat.add]. destruct (left <=? 0); [reflexivity|].
  cbn [firstn]. f_equal. apply IH.
Qed.

(* once the requests cover the budget, more grabs add nothing *)
Lemma canon_saturated : forall allot k m left r,
  left - sumZ (map allot (seq r k)) <= 0 ->
  canon left allot r k = canon left allot r (k + m).
Proof.
  intros allot. induction k as [|k IH]; intros m left r H.
  - cbn in H. cbn [Nat.add canon]. rewrite canon_nonpos by lia. reflexivity.
  - cbn [seq map sumZ fold_right] in H. cbn [canon Nat.add].
    destruct (left <=? 0); [reflexivity|]. f_equal. apply IH.
    unfold sumZ. lia.
Qed.

(* [Z.to_nat left] workers always suffice when every allotment is positive *)
Lemma canon_fuel_enough : forall allot, (forall i, 0 < allot i) ->
  forall f m left r, (Z.to_nat left <= f)%nat ->
  canon left allot r f = canon left allot r (f + m).
Proof.
  intros allot Hpos. induction f as [|f IH]; intros m left r H.
  - cbn [Nat.add canon]. rewrite canon_nonpos by lia. reflexivity.
  - cbn [canon Nat.add]. destruct (Z.leb_spec left 0); [reflexivity|].
    f_equal. apply IH. specialize (Hpos r). lia.
Qed.

Lemma canon_any_fuel : forall allot, (forall i, 0 < allot i) ->
  forall k fuel left r,
  left - sumZ (map allot (seq r k)) <= 0 ->
  (Z.to_nat left <= fuel \/ k <= fuel)%nat ->
  canon left allot r k = canon left allot r fuel.
Proof.
  intros allot Hpos k fuel left r Hs [Hf|Hf].
  - rewrite (canon_saturated allot k fuel left r Hs).
    rewrite (canon_fuel_enough allot Hpos fuel k left r Hf).
    f_equal. lia.
  - rewrite (canon_saturated allot k (fuel - k) left r Hs). f_equal. lia.
Qed.

(* --- constant allotment a --- *)

Lemma map_const_seq : forall (a : Z) k r, map (fun _ : nat => a) (seq r k) = repeat a k.
Proof. induction k as [|k IH]; intros r; cbn; [reflexivity|]. rewrite IH. reflexivity. Qed.

Lemma sumZ_repeat : forall a k, sumZ (repeat a k) = Z.of_nat k * a.
Proof.
  induction k as [|k IH]; [reflexivity|].
  cbn [repeat sumZ fold_right]. unfold sumZ in IH. rewrite IH. lia.
Qed.

(* the canonical list for a constant allotment *)
Definition canon_const (N a : Z) : list Z :=
  repeat a (Z.to_nat (N / a)) ++ (if N mod a =? 0 then [] else [N mod a]).

Lemma canon_const_closed : forall a, 0 < a ->
  forall k N r, 0 <= N -> N <= Z.of_nat k * a ->
  canon N (fun _ => a) r k = canon_const N a.
Proof.
  intros a Ha. unfold canon_const. induction k as [|k IH]; intros N r HN Hk.
  - assert (N = 0) by lia. subst N.
    rewrite Z.div_0_l, Z.mod_0_l by lia. reflexivity.
  - cbn [canon]. destruct (Z.leb_spec N 0) as [Hle|Hgt].
    + assert (N = 0) by lia. subst N.
      rewrite Z.div_0_l, Z.mod_0_l by lia. reflexivity.
    + destruct (Z_lt_le_dec N a) as [Hlt|Hge].
      * rewrite Z.div_small, Z.mod_small by lia.
        rewrite canon_nonpos by lia.
        replace (Z.min N a) with N by lia.
        destruct (Z.eqb_spec N 0); [lia|]. reflexivity.
      * replace (Z.min N a) with a by lia.
        rewrite IH by lia.
        assert (N / a = (N - a) / a + 1) as E1.
        { replace N with ((N - a) + 1 * a) at 1 by lia. apply Z.div_add. lia. }
        assert (N mod a = (N - a) mod a) as E2.
        { replace N with ((N - a) + 1 * a) at 1 by lia. apply Z.mod_add. lia. }
        rewrite E1, E2.
        assert (0 <= (N - a) / a) by (apply Z.div_pos; lia).
        replace (Z.to_nat ((N - a) / a + 1)) with (S (Z.to_nat ((N - a) / a))) by lia.
        reflexivity.
Qed.

Lemma canon_const_prefix : forall a N k r, 0 < a -> 0 <= N ->
  canon N (fun _ => a) r k = firstn k (canon_const N a).
Proof.
  intros a N k r Ha HN.
  rewrite (canon_prefix (fun _ => a) k (Z.to_nat N) N r).
  rewrite (canon_const_closed a Ha (k + Z.to_nat N) N r HN); [reflexivity|]. nia.
Qed.

(* ================================================================== *)
(* D. Scripted allotments, no external cancellation                    *)
(* ================================================================== *)

(* every grab of worker r requests [allot r]; no deadline / caller cancel *)
Definition sched_action_ok (allot : nat -> Z) (x : action) : Prop :=
  match x with AGrab r opt => opt = allot r | ACancel => False | _ => True end.
Definition sched_ok (allot : nat -> Z) (sched : list action) : Prop :=
  Forall (sched_action_ok allot) sched.

(* without ACancel the context is only cancelled by the Iterated handler *)
Definition cancel_by_budget (st : pstate) : Prop :=
  p_cancelled st = true -> p_iterations st <= p_total st.

Lemma cancel_by_budget_step : forall st a st',
  a <> ACancel -> pstep st a = Some st' -> cancel_by_budget st -> cancel_by_budget st'.
Proof.
  intros st a st' Ha H Hinv. unfold cancel_by_budget in *.
  destruct a; try congruence; step_inv H; intros Hc;
    try (specialize (Hinv Hc); lia).
  apply orb_true_iff in Hc. destruct Hc as [Hc|Hc];
    [specialize (Hinv Hc); lia|apply Z.leb_le in Hc; lia].
Qed.

Lemma sched_ok_not_cancel : forall allot a, sched_action_ok allot a -> a <> ACancel.
Proof. intros allot a H E. subst a. exact H. Qed.

Lemma cancel_by_budget_prun : forall allot N runs det s0 starts sched,
  sched_ok allot sched -> cancel_by_budget (prun (pinit N runs det s0 starts) sched).
Proof.
  intros allot N runs det s0 starts sched Hok.
  apply (prun_invariant_on (sched_action_ok allot) cancel_by_budget).
  - intros st a st' Ha Hs. apply (cancel_by_budget_step st a st'); [|exact Hs].
    eapply sched_ok_not_cancel. exact Ha.
  - exact Hok.
  - unfold cancel_by_budget, pinit. psimpl. discriminate.
Qed.

(* cancelled without ACancel: the whole budget was performed, hence granted *)
Lemma cancelled_exhausted : forall allot N runs det s0 starts sched,
  0 <= N -> sched_ok allot sched ->
  let st := prun (pinit N runs det s0 starts) sched in
  p_cancelled st = true ->
  p_total st = N /\ p_left st <= 0 /\ sumZ (map w_granted (p_workers st)) = N /\
  Forall (fun w => w_done w = w_granted w) (p_workers st).
Proof.
  intros allot N runs det s0 starts sched HN Hok st Hc.
  pose proof (cancel_by_budget_prun allot N runs det s0 starts sched Hok Hc) as Hge.
  destruct (budget_inv_prun N runs det s0 starts sched HN) as [Hi Hw Ht _ _].
  pose proof (grant_exact_prun N runs det s0 starts sched HN) as Hg.
  unfold grant_exact in Hg. fold st in Hge, Hi, Hw, Ht, Hg.
  pose proof (sum_done_le_granted _ Hw) as Hdg.
  assert (sumZ (map w_done (p_workers st)) = sumZ (map w_granted (p_workers st))) as Heq by lia.
  repeat split; try lia.
  clear - Hw Heq. induction Hw as [|w ws Hw1 Hws IH]; [constructor|].
  cbn [map sumZ fold_right] in Heq. fold (sumZ (map w_done ws)) in Heq.
  fold (sumZ (map w_granted ws)) in Heq.
  pose proof (sum_done_le_granted _ Hws).
  constructor; [lia|apply IH; lia].
Qed.

(* the requests recorded by the ghost follow the script *)
Lemma pgrabs_scripted : forall allot sched st,
  sched_ok allot sched -> grab_opts (pgrabs st sched) = map allot (grab_idx (pgrabs st sched)).
Proof.
  intros allot. induction sched as [|a k IH]; intros st Hok; [reflexivity|].
  inversion Hok as [|? ? Ha Hk]; subst.
  destruct (pstep st a) as [st'|] eqn:E.
  - rewrite (pgrabs_cons _ _ _ _ E). unfold grab_opts, grab_idx in *.
    rewrite !map_app, IH by exact Hk. f_equal.
    destruct a; cbn [step_grab map fst snd]; try reflexivity.
    cbn in Ha. rewrite Ha. reflexivity.
  - rewrite (pgrabs_skip _ _ _ E). apply IH. exact Hk.
Qed.

Lemma map_const : forall (A : Type) (a : Z) (l : list A),
  map (fun _ => a) l = repeat a (length l).
Proof. induction l as [|x l IH]; cbn; [reflexivity|]. rewrite IH. reflexivity. Qed.

(* ---------- Part 2: uniform allotment ---------- *)

(* any reachable state: the nonzero grants, in the order the grabs happened,
   are a prefix of the canonical list a, ..., a, N mod a; the state holds a
   permutation of them *)
Lemma Grants_prefix_of_allotments_proof : forall N runs det s0 starts a sched,
  0 < a -> 0 < N ->
  Forall (fun x => match x with AGrab _ opt => opt = a | ACancel => False | _ => True end) sched ->
  let st := prun (pinit N runs det s0 starts) sched in
  let grabs := pgrabs (pinit N runs det s0 starts) sched in
  let canonical := repeat a (Z.to_nat (N / a)) ++ (if N mod a =? 0 then [] else [N mod a]) in
  Permutation (filter (fun g => 0 <? g) (map w_granted (p_workers st)))
              (filter (fun g => 0 <? g) (grab_grants grabs)) /\
  filter (fun g => 0 <? g) (grab_grants grabs) = firstn (length grabs) canonical /\
  p_left st = N - Z.of_nat (length grabs) * a.
Proof.
  intros N runs det s0 starts a sched Ha HN Hok st grabs canonical.
  change (sched_ok (fun _ => a) sched) in Hok.
  set (init := pinit N runs det s0 starts) in *.
  assert (grab_opts grabs = repeat a (length grabs)) as Hopts.
  { unfold grabs. rewrite (pgrabs_scripted _ sched init Hok), map_const.
    unfold grab_idx. rewrite map_length. reflexivity. }
  split; [apply (pgrabs_perm sched init)|]. split.
  - unfold grabs at 1. rewrite (pgrabs_clamp sched init). fold grabs.
    rewrite Hopts, <- (map_const_seq a (length grabs) 0).
    change (filter (fun g => 0 <? g)) with fpos.
    rewrite (fpos_clamp_canon (fun _ => a)) by (intros _; exact Ha).
    change (p_left init) with N. apply canon_const_prefix; lia.
  - unfold st. rewrite (pgrabs_left sched init). fold grabs.
    rewrite Hopts, sumZ_repeat. reflexivity.
Qed.

Lemma firstn_all_ge : forall (A : Type) (l : list A) n, (length l <= n)%nat -> firstn n l = l.
Proof. intros. apply firstn_all2. assumption. Qed.

Lemma Grants_equal_allotments_multiset_proof : forall N runs det s0 starts a sched,
  0 < a -> 0 < N ->
  Forall (fun x => match x with AGrab _ opt => opt = a | ACancel => False | _ => True end) sched ->
  let st := prun (pinit N runs det s0 starts) sched in
  p_cancelled st = true ->
  Permutation (filter (fun g => 0 <? g) (map w_granted (p_workers st)))
              (repeat a (Z.to_nat (N / a)) ++ (if N mod a =? 0 then [] else [N mod a])) /\
  p_total st = N.
Proof.
  intros N runs det s0 starts a sched Ha HN Hok st Hc.
  assert (0 <= N) as HN0 by lia.
  destruct (cancelled_exhausted (fun _ => a) N runs det s0 starts sched HN0 Hok Hc)
    as (Ht & Hl & _ & _). fold st in Ht, Hl.
  split; [|exact Ht].
  set (init := pinit N runs det s0 starts) in *.
  set (grabs := pgrabs init sched).
  assert (grab_opts grabs = repeat a (length grabs)) as Hopts.
  { unfold grabs. rewrite (pgrabs_scripted (fun _ => a) sched init Hok), map_const.
    unfold grab_idx. rewrite map_length. reflexivity. }
  assert (p_left st = N - Z.of_nat (length grabs) * a) as Hleft.
  { unfold st. rewrite (pgrabs_left sched init). fold grabs.
    rewrite Hopts, sumZ_repeat. reflexivity. }
  eapply perm_trans; [apply (pgrabs_perm sched init)|].
  change (posg (p_workers init)) with (@nil Z). cbn [app].
  rewrite (pgrabs_clamp sched init). fold grabs.
  rewrite Hopts, <- (map_const_seq a (length grabs) 0).
  rewrite (fpos_clamp_canon (fun _ => a)) by (intros _; exact Ha).
  change (p_left init) with N.
  rewrite (canon_const_closed a Ha (length grabs) N 0 HN0) by lia.
  reflexivity.
Qed.

(* ================================================================== *)
(* E. One run at a time (parallelRuns = 1): grabs in index order       *)
(* ================================================================== *)

(* every worker but the last one has returned *)
Definition SeqInv (st : pstate) : Prop :=
  Forall (fun w => is_active w = false) (removelast (p_workers st)).

(* grants of the workers that have grabbed, in worker-index order *)
Definition gw (ws : list wphase) : list Z := map w_granted (filter grabbed ws).

Lemma gw_app : forall l1 l2, gw (l1 ++ l2) = gw l1 ++ gw l2.
Proof. intros. unfold gw. rewrite filter_app, map_app. reflexivity. Qed.

Lemma gw_one : forall w, is_new w = false -> gw [w] = [w_granted w].
Proof. intros w H. unfold gw, grabbed. cbn [filter]. rewrite H. reflexivity. Qed.

Lemma gw_inactive_length : forall l,
  Forall (fun w => is_active w = false) l -> length (gw l) = length l.
Proof.
  induction 1 as [|w l Hw _ IH]; [reflexivity|].
  destruct w; try discriminate. unfold gw in *. cbn. rewrite IH. reflexivity.
Qed.

Lemma fpos_cons : forall x l, fpos (x :: l) = fpos [x] ++ fpos l.
Proof. intros. change (x :: l) with ([x] ++ l). apply fpos_app. Qed.

(* workers that have not grabbed hold no grant *)
Lemma posg_gw : forall ws, posg ws = fpos (gw ws).
Proof.
  induction ws as [|w ws IH]; [reflexivity|].
  rewrite posg_cons, IH. unfold gw.
  destruct w; cbn [filter grabbed is_new negb map w_granted];
    try (symmetry; apply fpos_cons).
  reflexivity.
Qed.

Lemma active_last_mid : forall l1 w l2,
  Forall (fun w => is_active w = false) (removelast (l1 ++ w :: l2)) ->
  is_active w = true ->
  l2 = [] /\ Forall (fun w => is_active w = false) l1.
Proof.
  intros l1 w l2 H Hw. rewrite removelast_app in H by discriminate.
  apply Forall_app in H. destruct H as [H1 H2].
  destruct l2 as [|x l2]; [split; [reflexivity|exact H1]|].
  exfalso. change (removelast (w :: x :: l2)) with (w :: removelast (x :: l2)) in H2.
  inversion H2; congruence.
Qed.

Lemma removelast_nth : forall (P : wphase -> Prop) ws r w,
  Forall P (removelast ws) -> nth_error ws r = Some w -> (S r < length ws)%nat -> P w.
Proof.
  intros P ws r w H Hn Hr.
  destruct (exists_last (l := ws)) as (l' & x & E); [intros E; subst; cbn in Hr; lia|].
  subst ws. rewrite removelast_last in H. rewrite app_length in Hr. cbn in Hr.
  rewrite nth_error_app1 in Hn by lia.
  rewrite Forall_forall in H. apply H. eapply nth_error_In. exact Hn.
Qed.

Lemma seq_step : forall st a st',
  p_runs st = 1%nat -> SeqInv st -> pstep st a = Some st' ->
  SeqInv st' /\
  grab_idx (step_grab a st') =
    seq (length (gw (p_workers st))) (length (step_grab a st')) /\
  gw (p_workers st') = gw (p_workers st) ++ grab_grants (step_grab a st').
Proof.
  intros st a st' Hr Hinv H. unfold SeqInv in *.
  pose proof (pstep_workers _ _ _ H) as W.
  destruct a; cbn [step_grab grab_idx grab_grants map fst snd length seq];
    try (rewrite W, app_nil_r; repeat split; assumption);
    try (destruct W as (l1 & l2 & w & w' & E & _ & E' & Hn & Hn' & Ha & G);
         rewrite E in Hinv; destruct (active_last_mid _ _ _ Hinv Ha) as [E2 Hl1]; subst l2;
         rewrite E, E', removelast_last, !gw_app, (gw_one _ Hn), (gw_one _ Hn'), G, app_nil_r;
         repeat split; assumption).
  - (* ASpawn *)
    destruct W as [E Hac]. rewrite Hr in Hac.
    assert (active_count (p_workers st) = 0%nat) as H0 by lia.
    apply active_count_zero_inactive in H0.
    rewrite E, removelast_last, gw_app, app_nil_r. repeat split; try assumption.
    rewrite app_nil_r. reflexivity.
  - (* AGrab *)
    destruct W as (l1 & l2 & w & E & L & E' & Hn & _ & _).
    rewrite E in Hinv.
    destruct (active_last_mid _ _ _ Hinv eq_refl) as [E2 Hl1]. subst l2 r.
    rewrite (grant_at_mid _ _ _ _ E'), E, E', removelast_last, !gw_app, (gw_one _ Hn).
    change (gw [WNew]) with (@nil Z). rewrite app_nil_r, (gw_inactive_length _ Hl1).
    repeat split; assumption.
Qed.

Lemma seq_prun : forall sched st,
  p_runs st = 1%nat -> SeqInv st ->
  SeqInv (prun st sched) /\
  grab_idx (pgrabs st sched) = seq (length (gw (p_workers st))) (length (pgrabs st sched)) /\
  gw (p_workers (prun st sched)) = gw (p_workers st) ++ grab_grants (pgrabs st sched).
Proof.
  induction sched as [|a k IH]; intros st Hr Hinv.
  - cbn. rewrite app_nil_r. repeat split. exact Hinv.
  - destruct (pstep st a) as [st'|] eqn:E.
    + rewrite (prun_cons _ _ _ _ E), (pgrabs_cons _ _ _ _ E).
      destruct (seq_step _ _ _ Hr Hinv E) as (Hinv' & Hidx & Hgw).
      destruct (pstep_fields _ _ _ E) as (_ & Hr' & _). rewrite Hr in Hr'.
      destruct (IH st' Hr' Hinv') as (I1 & I2 & I3).
      split; [exact I1|]. unfold grab_idx, grab_grants in *.
      rewrite !map_app, app_length, seq_app, I2, I3, Hidx, Hgw, app_length, map_length, app_assoc.
      split; reflexivity.
    + rewrite (prun_skip _ _ _ E), (pgrabs_skip _ _ _ E). apply IH; assumption.
Qed.

Lemma seq_inv_init : forall N runs det s0 starts, SeqInv (pinit N runs det s0 starts).
Proof. intros. unfold SeqInv, pinit. psimpl. constructor. Qed.

Lemma filter_length_le' : forall (A : Type) (f : A -> bool) l,
  (length (filter f l) <= length l)%nat.
Proof. induction l as [|x l IH]; cbn; [lia|]. destruct (f x); cbn; lia. Qed.

(* at most one worker is active; worker r+1 exists only after worker r has
   returned; the grabs happen in worker-index order *)
Lemma Grants_sequential_one_active_proof : forall N det s0 starts sched,
  let st := prun (pinit N 1%nat det s0 starts) sched in
  let grabs := pgrabs (pinit N 1%nat det s0 starts) sched in
  (active_count (p_workers st) <= 1)%nat /\
  (forall r w, nth_error (p_workers st) r = Some w ->
               (S r < length (p_workers st))%nat -> is_active w = false) /\
  grab_idx grabs = seq 0 (length grabs) /\
  map w_granted (filter grabbed (p_workers st)) = grab_grants grabs.
Proof.
  intros N det s0 starts sched st grabs.
  destruct (C15_parallelism_bound_proof N 1%nat det s0 starts sched) as [Hb Hr].
  fold st in Hb, Hr. rewrite Hr in Hb.
  destruct (seq_prun sched (pinit N 1%nat det s0 starts) eq_refl
              (seq_inv_init N 1%nat det s0 starts)) as (Hinv & Hidx & Hgw).
  split; [exact Hb|]. split.
  - intros r w Hn Hlt. exact (removelast_nth _ _ _ _ Hinv Hn Hlt).
  - split; [exact Hidx|exact Hgw].
Qed.

(* any reachable state, runs = 1, scripted allotments: the nonzero grants in
   worker-index order are the canonical sequential grants of the workers
   that have grabbed so far *)
Lemma Grants_sequential_prefix_proof : forall N det s0 starts allot sched,
  (forall r, 0 < allot r) -> 0 < N ->
  Forall (fun x => match x with AGrab r opt => opt = allot r | ACancel => False | _ => True end) sched ->
  let st := prun (pinit N 1%nat det s0 starts) sched in
  let k := length (filter grabbed (p_workers st)) in
  filter (fun g => 0 <? g) (map w_granted (p_workers st)) = canon N allot 0 k /\
  p_left st = N - fold_right Z.add 0 (map allot (seq 0 k)).
Proof.
  intros N det s0 starts allot sched Hpos HN Hok st k.
  change (sched_ok allot sched) in Hok.
  set (init := pinit N 1%nat det s0 starts) in *.
  destruct (seq_prun sched init eq_refl (seq_inv_init N 1%nat det s0 starts))
    as (_ & Hidx & Hgw).
  change (gw (p_workers init)) with (@nil Z) in Hidx, Hgw. cbn [length app] in Hidx, Hgw.
  fold st in Hgw.
  assert (k = length (pgrabs init sched)) as Hk.
  { unfold k. rewrite <- (map_length w_granted). fold (gw (p_workers st)).
    rewrite Hgw. unfold grab_grants. apply map_length. }
  assert (grab_opts (pgrabs init sched) = map allot (seq 0 k)) as Hopts.
  { rewrite (pgrabs_scripted allot sched init Hok), Hidx, Hk. reflexivity. }
  split.
  - change (posg (p_workers st) = canon N allot 0 k).
    rewrite posg_gw, Hgw, (pgrabs_clamp sched init), Hopts.
    change (p_left init) with N. apply fpos_clamp_canon. exact Hpos.
  - unfold st. rewrite (pgrabs_left sched init), Hopts. reflexivity.
Qed.

(* ---------- Part 3 ---------- *)

Lemma Grants_sequential_order_proof : forall N det s0 starts allot sched,
  (forall r, 0 < allot r) -> 0 < N ->
  Forall (fun x => match x with AGrab r opt => opt = allot r | ACancel => False | _ => True end) sched ->
  let st := prun (pinit N 1%nat det s0 starts) sched in
  p_cancelled st = true ->
  (forall fuel, (Z.to_nat N <= fuel)%nat \/ (length (p_workers st) <= fuel)%nat ->
     filter (fun g => 0 <? g) (map w_granted (p_workers st)) = canon N allot 0 fuel) /\
  p_total st = N.
Proof.
  intros N det s0 starts allot sched Hpos HN Hok st Hc.
  assert (0 <= N) as HN0 by lia.
  destruct (cancelled_exhausted allot N 1%nat det s0 starts sched HN0 Hok Hc)
    as (Ht & Hl & _ & _). fold st in Ht, Hl.
  split; [|exact Ht].
  destruct (Grants_sequential_prefix_proof N det s0 starts allot sched Hpos HN Hok) as [Hg Hleft].
  fold st in Hg, Hleft.
  set (k := length (filter grabbed (p_workers st))) in *.
  intros fuel Hfuel. rewrite Hg.
  apply (canon_any_fuel allot Hpos).
  - unfold sumZ. lia.
  - pose proof (filter_length_le' _ grabbed (p_workers st)). fold k in H. lia.
Qed.

(* ================================================================== *)
(* F. Non-vacuity: concrete schedules                                  *)
(* ================================================================== *)

(* budget 70, four parallel runs, allotment 20.
   Schedule 1: grabs in the order 1, 0, 2, 3; all iterations interleaved
   round-robin over the four workers (disabled ones are skipped).
   Schedule 2: grabs in the order 3, 2, 1, 0 (worker 0 gets the remainder);
   worker 3 runs to completion and returns, a new cycle starts a fifth worker
   which finds no budget and parks; the other three interleave.
   Both end cancelled by the budget with 70 iterations and the same multiset
   of nonzero grants, although the grants per worker index differ. *)
Lemma Grants_canonical_schedule_example_proof :
  let init := pinit 70 4%nat false 100 [] in
  let scripted := Forall (fun x => match x with
                                   | AGrab _ opt => opt = 20 | ACancel => False | _ => True end) in
  let sched1 :=
    [ASpawn; ASpawn; AGrab 1 20; AGrab 0 20; ASpawn; AGrab 2 20; ASpawn; AGrab 3 20]
    ++ flat_map (fun _ => [AIterate 0; AIterate 3; AIterate 1; AIterate 2]) (seq 0 20)
    ++ [AFinish 0; AFinish 1; AFinish 2; AFinish 3; ADispatcherExit; AClose] in
  let sched2 :=
    [ASpawn; ASpawn; ASpawn; ASpawn; AGrab 3 20; AGrab 2 20; AGrab 1 20; AGrab 0 20]
    ++ flat_map (fun _ => [AIterate 3]) (seq 0 20)
    ++ [AFinish 3; ACycleEnd; ASpawn; AGrab 4 20]
    ++ flat_map (fun _ => [AIterate 2; AIterate 0; AIterate 1]) (seq 0 20)
    ++ [AFinish 0; AFinish 1; AFinish 2; AFinish 4; ADispatcherExit; AClose] in
  let st1 := prun init sched1 in
  let st2 := prun init sched2 in
  (scripted sched1 /\ scripted sched2) /\
  (p_cancelled st1 = true /\ p_closed st1 = true /\ p_total st1 = 70 /\
   map w_granted (p_workers st1) = [20; 20; 20; 10] /\
   grab_idx (pgrabs init sched1) = [1; 0; 2; 3]%nat /\
   Permutation (filter (fun g => 0 <? g) (map w_granted (p_workers st1))) [20; 20; 20; 10]) /\
  (p_cancelled st2 = true /\ p_closed st2 = true /\ p_total st2 = 70 /\
   map w_granted (p_workers st2) = [10; 20; 20; 20; 0] /\
   grab_idx (pgrabs init sched2) = [3; 2; 1; 0; 4]%nat /\
   Permutation (filter (fun g => 0 <? g) (map w_granted (p_workers st2))) [20; 20; 20; 10]) /\
  repeat 20 (Z.to_nat (70 / 20)) ++ (if 70 mod 20 =? 0 then [] else [70 mod 20]) = [20; 20; 20; 10].
Proof.
  cbv zeta. split; [|split; [|split]].
  - split; vm_compute; repeat constructor.
  - repeat split; vm_compute; reflexivity.
  - repeat split; try (vm_compute; reflexivity).
    vm_compute. exact (Permutation_cons_append [20; 20; 20] 10).
  - vm_compute. reflexivity.
Qed.

(* runs = 1, allotments 30, 25, 40, ...: grants 30, 25, 15 in index order *)
Lemma Grants_sequential_example_proof :
  let allot := fun r : nat => match r with 0%nat => 30 | 1%nat => 25 | _ => 40 end in
  let sched :=
    [ASpawn; AGrab 0 30] ++ flat_map (fun _ => [AIterate 0]) (seq 0 30)
    ++ [AFinish 0; ACycleEnd; ASpawn; AGrab 1 25] ++ flat_map (fun _ => [AIterate 1]) (seq 0 25)
    ++ [AFinish 1; ACycleEnd; ASpawn; AGrab 2 40] ++ flat_map (fun _ => [AIterate 2]) (seq 0 40)
    ++ [AFinish 2; ADispatcherExit; AClose] in
  let st := prun (pinit 70 1%nat true 100 []) sched in
  Forall (fun x => match x with
                   | AGrab r opt => opt = allot r | ACancel => False | _ => True end) sched /\
  p_cancelled st = true /\ p_closed st = true /\ p_total st = 70 /\
  map w_granted (p_workers st) = [30; 25; 15] /\
  canon 70 allot 0 70 = [30; 25; 15].
Proof.
  cbv zeta. split.
  - vm_compute. repeat constructor.
  - repeat split; vm_compute; reflexivity.
Qed.

(* ================================================================== *)
(* G. Corollaries used by the differential test                        *)
(* ================================================================== *)

(* two schedules with the same uniform allotment that both end cancelled by
   the budget cannot be told apart by the grant multiset or the total *)
Lemma Grants_schedule_independent_proof : forall N runs det s0 starts a sched1 sched2,
  0 < a -> 0 < N ->
  Forall (fun x => match x with AGrab _ opt => opt = a | ACancel => False | _ => True end) sched1 ->
  Forall (fun x => match x with AGrab _ opt => opt = a | ACancel => False | _ => True end) sched2 ->
  let st1 := prun (pinit N runs det s0 starts) sched1 in
  let st2 := prun (pinit N runs det s0 starts) sched2 in
  p_cancelled st1 = true -> p_cancelled st2 = true ->
  Permutation (filter (fun g => 0 <? g) (map w_granted (p_workers st1)))
              (filter (fun g => 0 <? g) (map w_granted (p_workers st2))) /\
  p_total st1 = p_total st2.
Proof.
  intros N runs det s0 starts a sched1 sched2 Ha HN Hok1 Hok2 st1 st2 Hc1 Hc2.
  destruct (Grants_equal_allotments_multiset_proof N runs det s0 starts a sched1 Ha HN Hok1 Hc1)
    as [P1 T1].
  destruct (Grants_equal_allotments_multiset_proof N runs det s0 starts a sched2 Ha HN Hok2 Hc2)
    as [P2 T2].
  fold st1 in P1, T1. fold st2 in P2, T2. split.
  - eapply perm_trans; [exact P1|]. apply Permutation_sym. exact P2.
  - congruence.
Qed.

(* cancelled by the budget (any scripted allotments): every worker performed
   exactly what it was granted and the grants add up to the budget *)
Lemma Grants_cancelled_all_performed_proof : forall N runs det s0 starts allot sched,
  0 < N ->
  Forall (fun x => match x with AGrab r opt => opt = allot r | ACancel => False | _ => True end) sched ->
  let st := prun (pinit N runs det s0 starts) sched in
  p_cancelled st = true ->
  p_total st = N /\ p_left st <= 0 /\
  fold_right Z.add 0 (map w_granted (p_workers st)) = N /\
  Forall (fun w => w_done w = w_granted w) (p_workers st).
Proof.
  intros N runs det s0 starts allot sched HN Hok st Hc.
  assert (0 <= N) as HN0 by lia.
  exact (cancelled_exhausted allot N runs det s0 starts sched HN0 Hok Hc).
Qed.
