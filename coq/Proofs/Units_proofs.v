(* Theorems about the nested plan units model (Model/Units.v).

   Part A  conservative extension: on flat inputs (no groups, no initial stops)
           every g_ function IS the core engine function, without any side
           condition on the state.
   Part B  machine-checked witnesses of the known defects N1 N2 N4 N7.
   Part C  positive results on the units move (g_exec_units).

   The statements are repeated in Props/Units.v. *)

From Coq Require Import List ZArith Bool Arith Lia Permutation Sorted.
From NR Require Import Model.Engine Model.Estimates Model.Units
                       Proofs.Engine_lists Proofs.Engine_inv Proofs.Engine_spec.
Import ListNotations.
Local Open Scope nat_scope.

(* ================================================================== *)
(* Part A.  Flat inputs: the nested engine is the core engine          *)
(* ================================================================== *)

Definition flat (gi : ginput) : Prop :=
  gi_groups gi = [] /\ Forall (fun l => l = []) (gi_initial gi).

(* the two halves of [flat]; most lemmas need only one of them *)
Definition no_groups (gi : ginput) : Prop := gi_groups gi = [].
Definition no_initial (gi : ginput) : Prop := Forall (fun l => l = []) (gi_initial gi).

Lemma flat_no_groups (gi : ginput) : flat gi -> no_groups gi.
Proof. intros (H & _). exact H. Qed.
Lemma flat_no_initial (gi : ginput) : flat gi -> no_initial gi.
Proof. intros (_ & H). exact H. Qed.

(* ---- the group vocabulary collapses ------------------------------- *)

Lemma member_group_flat (gi : ginput) (u : nat) : no_groups gi -> member_group gi u = None.
Proof. intros Hg. unfold member_group. rewrite Hg. reflexivity. Qed.

Lemma top_of_flat (gi : ginput) (u : nat) : no_groups gi -> top_of gi u = u.
Proof. intros Hg. unfold top_of. rewrite (member_group_flat gi u Hg). reflexivity. Qed.

Lemma members_of_flat (gi : ginput) (id : nat) :
  no_groups gi -> members_of gi id = if (nunits_of gi <=? id) then [] else [id].
Proof.
  intros Hg. unfold members_of, is_group_id. rewrite Hg.
  destruct (nunits_of gi <=? id); [|reflexivity].
  destruct (id - nunits_of gi); reflexivity.
Qed.

(* an id beyond the units has no stops: its penalty is 0 on both sides, so
   no bound on the ids in st_unplanned is needed *)
Lemma unit_penalty_out_of_range (inp : input) (u : nat) :
  length (in_units inp) <= u -> unit_penalty inp u = 0%Z.
Proof.
  intros Hu. unfold unit_penalty, get_unit. rewrite nth_overflow by exact Hu. reflexivity.
Qed.

Lemma top_penalty_flat (gi : ginput) (id : nat) :
  no_groups gi -> top_penalty gi id = unit_penalty (gi_inp gi) id.
Proof.
  intros Hg. unfold top_penalty. rewrite (members_of_flat gi id Hg).
  destruct (Nat.leb_spec (nunits_of gi) id) as [Hle|Hlt].
  - cbn [map sumZ fold_right]. symmetry. apply unit_penalty_out_of_range. exact Hle.
  - cbn [map sumZ fold_right]. apply Z.add_0_r.
Qed.

Lemma stop_fixed_flat (gi : ginput) (x : nat) : no_initial gi -> stop_fixed gi x = false.
Proof.
  intros Hi. unfold stop_fixed. unfold no_initial in Hi.
  induction Hi as [|l ls Hl _ IH]; [reflexivity|].
  cbn [existsb]. rewrite Hl. cbn [existsb orb]. exact IH.
Qed.

Lemma unit_fixed_flat (gi : ginput) (u : nat) : no_initial gi -> unit_fixed gi u = false.
Proof.
  intros Hi. unfold unit_fixed.
  induction (iu_stops (get_unit (gi_inp gi) u)) as [|x l IH]; [reflexivity|].
  cbn [existsb]. rewrite (stop_fixed_flat gi x Hi). exact IH.
Qed.

Lemma top_fixed_flat (gi : ginput) (id : nat) : no_initial gi -> top_fixed gi id = false.
Proof.
  intros Hi. unfold top_fixed.
  induction (members_of gi id) as [|x l IH]; [reflexivity|].
  cbn [existsb]. rewrite (unit_fixed_flat gi x Hi). exact IH.
Qed.

(* ---- scores -------------------------------------------------------- *)

(* needs only: no groups *)
Lemma g_score_terms_no_groups (gi : ginput) (s : state) :
  no_groups gi -> g_score_terms gi s = score_terms (gi_inp gi) s.
Proof.
  intros Hg. unfold g_score_terms, score_terms, obj_unplanned. cbv zeta.
  rewrite (map_ext (top_penalty gi) (unit_penalty (gi_inp gi))
             (fun id => top_penalty_flat gi id Hg)).
  reflexivity.
Qed.

Lemma g_refresh_no_groups (gi : ginput) (s : state) :
  no_groups gi -> g_refresh gi s = refresh_scores (gi_inp gi) s.
Proof.
  intros Hg. unfold g_refresh, refresh_scores. cbv zeta.
  rewrite (g_score_terms_no_groups gi s Hg). reflexivity.
Qed.

Lemma g_is_feasible_no_groups (gi : ginput) (s : state) (v idx : nat) (stops : list nat) (t : bool) :
  no_groups gi -> g_is_feasible gi s v idx stops t = is_feasible (gi_inp gi) s v idx stops t.
Proof.
  intros Hg. unfold g_is_feasible, is_feasible. cbv zeta.
  destruct (propagate (gi_inp gi) v t (last_cell (firstn (S idx) (get_route s v)))
              (skipn (S idx) stops)) as [cs|k]; [|reflexivity].
  rewrite (g_refresh_no_groups gi _ Hg). reflexivity.
Qed.

(* ---- moves --------------------------------------------------------- *)

(* needs: no groups, and the moved unit is not fixed *)
Lemma g_exec_move_no_groups (gi : ginput) (s : state) (mv : move) :
  no_groups gi -> unit_fixed gi (mv_unit mv) = false ->
  g_exec_move gi s mv = exec_move (gi_inp gi) s mv.
Proof.
  intros Hg Hfx. unfold g_exec_move, exec_move. cbv zeta.
  rewrite Hfx, orb_false_r, (member_group_flat gi (mv_unit mv) Hg).
  destruct (unit_planned (gi_inp gi) s (mv_unit mv)); [reflexivity|].
  rewrite !(g_is_feasible_no_groups gi _ _ _ _ _ Hg).
  unfold move_to_unplanned, move_to_planned, with_colls.
  cbn [st_routes st_planned st_unplanned st_fixed st_scores st_total].
  reflexivity.
Qed.

Lemma g_move_executable_flat (gi : ginput) (s : state) (mv : move) :
  unit_fixed gi (mv_unit mv) = false ->
  g_move_executable gi s mv = move_executable (gi_inp gi) s mv.
Proof.
  intros Hfx. unfold g_move_executable, move_executable. rewrite Hfx.
  cbn [negb]. rewrite andb_true_r. reflexivity.
Qed.

Lemma g_exec_checked_no_groups (gi : ginput) (s : state) (mv : move) :
  no_groups gi -> unit_fixed gi (mv_unit mv) = false ->
  g_exec_checked gi s mv = exec_checked (gi_inp gi) s mv.
Proof.
  intros Hg Hfx. unfold g_exec_checked, exec_checked.
  rewrite (g_move_executable_flat gi s mv Hfx), (g_exec_move_no_groups gi s mv Hg Hfx).
  reflexivity.
Qed.

(* the nested un-plan swaps the collections once more after a rejected
   re-insert (move_to_planned s3 target); without groups target = u and both
   swaps are idempotent *)
Lemma coll_add_idem (x : nat) (l : list nat) : coll_add x (coll_add x l) = coll_add x l.
Proof.
  unfold coll_add at 1.
  assert (H : mem_nat x (coll_add x l) = true).
  { apply mem_nat_In. apply In_coll_add. left; reflexivity. }
  rewrite H. reflexivity.
Qed.

Lemma coll_remove_idem (x : nat) (l : list nat) : coll_remove x (coll_remove x l) = coll_remove x l.
Proof.
  apply coll_remove_notin. intros H. apply In_coll_remove in H. destruct H as (_ & H). congruence.
Qed.

Lemma g_unplan_unit_no_groups (gi : ginput) (s : state) (u : nat) :
  no_groups gi -> unit_fixed gi u = false ->
  g_unplan_unit gi s u = unplan_unit (gi_inp gi) s u.
Proof.
  intros Hg Hfx. unfold g_unplan_unit, unplan_unit. cbv zeta.
  rewrite Hfx, orb_false_r, (member_group_flat gi u Hg), (top_of_flat gi u Hg).
  destruct (negb (unit_planned (gi_inp gi) s u)); [reflexivity|].
  destruct (vehicle_of_unit (gi_inp gi) s u) as [v|]; [|reflexivity].
  rewrite !(g_is_feasible_no_groups gi _ _ _ _ _ Hg).
  unfold move_to_unplanned, move_to_planned, with_colls.
  cbn [st_routes st_planned st_unplanned st_fixed st_scores st_total].
  match goal with |- match ?X with _ => _ end = _ => destruct X as [s2|k]; [reflexivity|] end.
  unfold is_feasible. cbv zeta.
  match goal with |- match (match ?X with _ => _ end) with _ => _ end = _ =>
    destruct X as [cs|k']; [|reflexivity] end.
  unfold refresh_scores, set_route.
  cbn [st_routes st_planned st_unplanned st_fixed st_scores st_total].
  rewrite coll_add_idem, coll_remove_idem. reflexivity.
Qed.

(* ---- the start solution -------------------------------------------- *)

Lemma init_vehicles_no_initial (gi : ginput) (vs : list nat) (s : state) :
  no_initial gi -> init_vehicles gi vs s = Some s.
Proof.
  intros Hi. induction vs as [|v vs IH]; [reflexivity|].
  cbn [init_vehicles].
  assert (H : nth v (gi_initial gi) [] = []).
  { unfold no_initial in Hi. rewrite Forall_forall in Hi.
    destruct (Nat.lt_ge_cases v (length (gi_initial gi))) as [Hlt|Hge].
    - apply Hi. apply nth_In. exact Hlt.
    - apply nth_overflow. exact Hge. }
  rewrite H. cbn [map]. exact IH.
Qed.

Lemma filter_true_id {A} (f : A -> bool) (l : list A) :
  (forall x, f x = true) -> filter f l = l.
Proof.
  intros Hf. induction l as [|a l IH]; [reflexivity|]. cbn [filter]. rewrite (Hf a), IH. reflexivity.
Qed.

Lemma g_new_solution_flat_eq (gi : ginput) :
  flat gi -> g_new_solution gi = new_solution (gi_inp gi).
Proof.
  intros (Hg & Hi). unfold g_new_solution. cbv zeta.
  unfold new_solution. cbv zeta.
  destruct (all_some (map (empty_route (gi_inp gi)) (seqn (length (in_vehicles (gi_inp gi))))))
    as [routes|]; [|reflexivity].
  rewrite (init_vehicles_no_initial gi _ _ Hi).
  rewrite (g_refresh_no_groups gi _ Hg).
  rewrite Hg. cbn [length seqn map]. rewrite app_nil_r.
  rewrite filter_true_id by (intros x; rewrite (member_group_flat gi x Hg); reflexivity).
  unfold nunits_of. reflexivity.
Qed.

(* ---- the statements under [flat] ------------------------------------ *)

Theorem flat_score_terms (gi : ginput) (s : state) :
  flat gi -> g_score_terms gi s = score_terms (gi_inp gi) s.
Proof. intros Hf. exact (g_score_terms_no_groups gi s (flat_no_groups gi Hf)). Qed.

Theorem flat_refresh (gi : ginput) (s : state) :
  flat gi -> g_refresh gi s = refresh_scores (gi_inp gi) s.
Proof. intros Hf. exact (g_refresh_no_groups gi s (flat_no_groups gi Hf)). Qed.

Theorem flat_is_feasible (gi : ginput) (s : state) (v idx : nat) (stops : list nat) (t : bool) :
  flat gi -> g_is_feasible gi s v idx stops t = is_feasible (gi_inp gi) s v idx stops t.
Proof. intros Hf. exact (g_is_feasible_no_groups gi s v idx stops t (flat_no_groups gi Hf)). Qed.

Theorem flat_exec_move (gi : ginput) (s : state) (mv : move) :
  flat gi -> g_exec_move gi s mv = exec_move (gi_inp gi) s mv.
Proof.
  intros Hf. exact (g_exec_move_no_groups gi s mv (flat_no_groups gi Hf)
                      (unit_fixed_flat gi _ (flat_no_initial gi Hf))).
Qed.

Theorem flat_exec_checked (gi : ginput) (s : state) (mv : move) :
  flat gi -> g_exec_checked gi s mv = exec_checked (gi_inp gi) s mv.
Proof.
  intros Hf. exact (g_exec_checked_no_groups gi s mv (flat_no_groups gi Hf)
                      (unit_fixed_flat gi _ (flat_no_initial gi Hf))).
Qed.

Theorem flat_unplan_unit (gi : ginput) (s : state) (u : nat) :
  flat gi -> g_unplan_unit gi s u = unplan_unit (gi_inp gi) s u.
Proof.
  intros Hf. exact (g_unplan_unit_no_groups gi s u (flat_no_groups gi Hf)
                      (unit_fixed_flat gi u (flat_no_initial gi Hf))).
Qed.

Theorem flat_new_solution (gi : ginput) :
  flat gi -> g_new_solution gi = new_solution (gi_inp gi).
Proof. exact (g_new_solution_flat_eq gi). Qed.

(* ---- histories ------------------------------------------------------ *)

(* (1) the histories of Proofs/Engine_inv.v ([op], [step], [run], [fresh]) and
   the reachable states of Proofs/Engine_spec.v, replayed with the g_ functions *)
Definition g_step (gi : ginput) (s : state) (o : op) : state * result :=
  match o with OpPlan mv => g_exec_move gi s mv | OpUnplan u => g_unplan_unit gi s u end.
Fixpoint g_fresh (gi : ginput) (s : state) (h : list op) : Prop :=
  match h with
  | [] => True
  | o :: h' => op_ok (gi_inp gi) s o /\ g_fresh gi (fst (g_step gi s o)) h'
  end.
Fixpoint g_run (gi : ginput) (s : state) (h : list op) : list state :=
  match h with [] => [s] | o :: h' => s :: g_run gi (fst (g_step gi s o)) h' end.
Definition g_reachable (gi : ginput) (s : state) : Prop :=
  exists s0 h, g_new_solution gi = Some s0 /\ g_fresh gi s0 h /\ In s (g_run gi s0 h).

Lemma flat_step (gi : ginput) (s : state) (o : op) :
  flat gi -> g_step gi s o = step (gi_inp gi) s o.
Proof.
  intros Hf. destruct o as [mv|u]; cbn [g_step step].
  - exact (flat_exec_move gi s mv Hf).
  - exact (flat_unplan_unit gi s u Hf).
Qed.

Lemma flat_run (gi : ginput) (h : list op) (s : state) :
  flat gi -> g_run gi s h = run (gi_inp gi) s h.
Proof.
  intros Hf. revert s. induction h as [|o h IH]; intros s; cbn [g_run run]; [reflexivity|].
  rewrite (flat_step gi s o Hf), IH. reflexivity.
Qed.

Lemma flat_fresh (gi : ginput) (h : list op) (s : state) :
  flat gi -> (g_fresh gi s h <-> fresh (gi_inp gi) s h).
Proof.
  intros Hf. revert s. induction h as [|o h IH]; intros s; cbn [g_fresh fresh]; [tauto|].
  rewrite (flat_step gi s o Hf), IH. tauto.
Qed.

Theorem flat_reachable (gi : ginput) (s : state) :
  flat gi -> (g_reachable gi s <-> reachable (gi_inp gi) s).
Proof.
  intros Hf. unfold g_reachable, reachable. rewrite (flat_new_solution gi Hf).
  split; intros (s0 & h & Hns & Hfr & Hin); exists s0, h; (split; [exact Hns|]).
  - rewrite <- (flat_fresh gi h s0 Hf), <- (flat_run gi h s0 Hf). split; assumption.
  - rewrite (flat_fresh gi h s0 Hf), (flat_run gi h s0 Hf). split; assumption.
Qed.

(* the invariant of the core engine holds on everything the nested engine
   reaches on a flat input *)
Corollary flat_reachable_invT (gi : ginput) (s : state) :
  flat gi -> wf_input (gi_inp gi) -> g_reachable gi s -> InvT (gi_inp gi) s.
Proof.
  intros Hf Hwf Hr. apply (reachable_invT (gi_inp gi) s Hwf).
  apply (flat_reachable gi s Hf). exact Hr.
Qed.

(* (2) arbitrary operation lists (no well-formedness asked), with the checked
   move as well, and the answers recorded *)
Inductive gop := GExec (mv : move) | GExecChecked (mv : move) | GUnplan (u : nat).

Definition c_step (inp : input) (s : state) (o : gop) : state * result :=
  match o with
  | GExec mv => exec_move inp s mv
  | GExecChecked mv => exec_checked inp s mv
  | GUnplan u => unplan_unit inp s u
  end.
Definition gg_step (gi : ginput) (s : state) (o : gop) : state * result :=
  match o with
  | GExec mv => g_exec_move gi s mv
  | GExecChecked mv => g_exec_checked gi s mv
  | GUnplan u => g_unplan_unit gi s u
  end.
(* the states met and the answers given, in order *)
Fixpoint c_trace (inp : input) (s : state) (h : list gop) : list (state * result) :=
  match h with [] => [] | o :: h' => c_step inp s o :: c_trace inp (fst (c_step inp s o)) h' end.
Fixpoint g_trace (gi : ginput) (s : state) (h : list gop) : list (state * result) :=
  match h with [] => [] | o :: h' => gg_step gi s o :: g_trace gi (fst (gg_step gi s o)) h' end.

Lemma flat_gg_step (gi : ginput) (s : state) (o : gop) :
  flat gi -> gg_step gi s o = c_step (gi_inp gi) s o.
Proof.
  intros Hf. destruct o as [mv|mv|u]; cbn [gg_step c_step].
  - exact (flat_exec_move gi s mv Hf).
  - exact (flat_exec_checked gi s mv Hf).
  - exact (flat_unplan_unit gi s u Hf).
Qed.

Lemma flat_trace (gi : ginput) (h : list gop) (s : state) :
  flat gi -> g_trace gi s h = c_trace (gi_inp gi) s h.
Proof.
  intros Hf. revert s. induction h as [|o h IH]; intros s; cbn [g_trace c_trace]; [reflexivity|].
  rewrite (flat_gg_step gi s o Hf), IH. reflexivity.
Qed.

(* from the start solution: same start (or both fail), same states, same answers *)
Theorem flat_history (gi : ginput) (h : list gop) :
  flat gi ->
  option_map (fun s0 => (s0, g_trace gi s0 h)) (g_new_solution gi)
  = option_map (fun s0 => (s0, c_trace (gi_inp gi) s0 h)) (new_solution (gi_inp gi)).
Proof.
  intros Hf. rewrite (flat_new_solution gi Hf).
  destruct (new_solution (gi_inp gi)) as [s0|]; cbn [option_map]; [|reflexivity].
  rewrite (flat_trace gi h s0 Hf). reflexivity.
Qed.

(* non-vacuity: the example input of Proofs/Engine_inv.v as a flat nested input *)
Definition exf_gi : ginput := mkGInput ex_inp [] [[]].
Example exf_flat : flat exf_gi.
Proof. split; [reflexivity|]. constructor; [reflexivity|constructor]. Qed.
Example exf_history :
  option_map (fun s0 => map snd (g_trace exf_gi s0 [GExecChecked ex_mv1; GExec ex_mv2; GUnplan 0]))
             (g_new_solution exf_gi)
  = Some [Done; Rejected (KCapacity 0); Done].
Proof. vm_compute. reflexivity. Qed.

(* "flat" cannot be dropped: with a group the start solutions differ *)
Example not_flat_differs :
  exists gi, gi_initial gi = [] /\ g_new_solution gi <> new_solution (gi_inp gi).
Proof.
  exists (mkGInput ex_inp [[0; 1]] []). split; [reflexivity|]. vm_compute. discriminate.
Qed.

(* ================================================================== *)
(* Part B.  Witnesses of the known defects                             *)
(* ================================================================== *)

(* One vehicle of capacity 1 (start level 0), two stops, one stops unit per
   stop, both units members of ONE group (top-level id 2 = nunits + 0).
   Stop 0 picks up 1 (level +1), stop 1 delivers 1 (level -1): stop 1 is only
   feasible behind stop 0, so  [first; 0; 1; last]  is feasible,
   [first; 1; last]  is not (level -1) and  [first; 0; last]  is.
   Each stop has penalty 10; the objective is travel duration + unplanned. *)
Definition w_opts : options :=
  mkOptions false false false false false false false false false false false 0%Z 1%Z 0%Z 1%Z false 0%Z 0%Z 0%Z 0%Z false [].
Definition w_mat : list (list Z) := [[0;1;1;1];[1;0;1;1];[1;1;0;1];[1;1;1;0]]%Z.
Definition w_inp : input :=
  mkInput [] [mkIStop [(-1)%Z] 0%Z [] None 10%Z [] None 0%Z 0%Z; mkIStop [1%Z] 0%Z [] None 10%Z [] None 0%Z 0%Z]
          [mkIVehicle (Some [1%Z]) [0%Z] 0%Z None None None None None [] 0%Z true true 0%Z 0%Z 1%Z 1%Z]
          [mkIUnit [0] []; mkIUnit [1] []]
          w_mat w_mat 1 w_opts [].
Definition w_gi : ginput := mkGInput w_inp [[0; 1]] [[]].
Definition w_gid : nat := 2.                                 (* the group *)
(* stop 0 in front of the last stop (3), then stop 1 in front of the last stop *)
Definition w_subs : list submove := [mkSub 0 0 [(0, 3)]; mkSub 1 0 [(1, 3)]].
(* the other order: stop 1 first *)
Definition w_subs_bad : list submove := [mkSub 1 0 [(1, 3)]; mkSub 0 0 [(0, 3)]].

Definition w_dummy : state := mkState [] [] [] [] [] 0%Z.
Definition w_s0 : state :=
  Eval vm_compute in match g_new_solution w_gi with Some s => s | None => w_dummy end.
Definition w_s1 : state := Eval vm_compute in fst (g_exec_units w_gi w_s0 w_gid w_subs).

Lemma w_wf : wf_input w_inp.
Proof.
  split; [|split; [|split; [|split; [exact (Forall_nil _)|mult_wf]]]].
  - vm_compute. constructor; [simpl; lia|]. constructor; [simpl; tauto|constructor].
  - intros x. vm_compute. lia.
  - intros u Hu. vm_compute in Hu. destruct Hu as [<-|[<-|[]]]; discriminate.
Qed.

Lemma w_new : g_new_solution w_gi = Some w_s0.
Proof. vm_compute. reflexivity. Qed.
Lemma w_planned : g_exec_units w_gi w_s0 w_gid w_subs = (w_s1, Done).
Proof. vm_compute. reflexivity. Qed.
Lemma w_members : members_of w_gi w_gid = [0; 1].
Proof. reflexivity. Qed.

(* N1: a member's un-plan moves the whole group to the unplanned collection
   although the sibling stays on the route *)
Theorem N1_member_unplan_splits_group_proof :
  exists gi s0 id subs s1 m m' s2,
    wf_input (gi_inp gi) /\
    g_new_solution gi = Some s0 /\
    g_exec_units gi s0 id subs = (s1, Done) /\
    members_of gi id = [m'; m] /\
    g_unplan_unit gi s1 m = (s2, Done) /\
    In id (st_unplanned s2) /\ ~ In id (st_planned s2) /\
    unit_planned (gi_inp gi) s2 m' = true.
Proof.
  exists w_gi, w_s0, w_gid, w_subs, w_s1, 1, 0,
         (fst (g_unplan_unit w_gi w_s1 1)).
  split; [exact w_wf|]. split; [exact w_new|]. split; [exact w_planned|].
  split; [reflexivity|]. split; [vm_compute; reflexivity|].
  split; [vm_compute; left; reflexivity|]. split; [vm_compute; tauto|].
  vm_compute. reflexivity.
Qed.

(* N2: the group un-plan answers Done although member 0 could not be removed
   (removing stop 0 alone leaves [first; 1; last], level -1) *)
Theorem N2_group_unplan_partial_proof :
  exists gi s0 id subs s1 m k s2,
    wf_input (gi_inp gi) /\
    g_new_solution gi = Some s0 /\
    g_exec_units gi s0 id subs = (s1, Done) /\
    In m (members_of gi id) /\
    snd (g_unplan_unit gi (move_to_unplanned s1 id) m) = Rejected k /\   (* what the loop asks first *)
    g_unplan_group gi s1 id = (s2, Done) /\
    top_planned gi s2 id = false /\ In id (st_unplanned s2) /\
    unit_planned (gi_inp gi) s2 m = true.
Proof.
  exists w_gi, w_s0, w_gid, w_subs, w_s1, 0, (KCapacity 0),
         (fst (g_unplan_group w_gi w_s1 w_gid)).
  split; [exact w_wf|]. split; [exact w_new|]. split; [exact w_planned|].
  split; [left; reflexivity|]. split; [vm_compute; reflexivity|].
  split; [vm_compute; reflexivity|]. split; [vm_compute; reflexivity|].
  split; [vm_compute; left; reflexivity|]. vm_compute. reflexivity.
Qed.

(* N4: a rejected member un-plan leaves total <> sum of the terms of the state
   it returns (the restore refreshed the scores while the group was booked
   unplanned, then the group was booked planned again) *)
Theorem N4_member_unplan_rejected_stale_score_proof :
  exists gi s0 id subs s1 m k s2,
    wf_input (gi_inp gi) /\
    g_new_solution gi = Some s0 /\
    g_exec_units gi s0 id subs = (s1, Done) /\
    In m (members_of gi id) /\
    st_total s1 = sumZ (g_score_terms gi s1) /\           (* fine before *)
    g_unplan_unit gi s1 m = (s2, Rejected k) /\
    st_routes s2 = st_routes s1 /\ st_planned s2 = st_planned s1 /\
    st_unplanned s2 = st_unplanned s1 /\
    st_total s2 <> sumZ (g_score_terms gi s2).
Proof.
  exists w_gi, w_s0, w_gid, w_subs, w_s1, 0, (KCapacity 0),
         (fst (g_unplan_unit w_gi w_s1 0)).
  split; [exact w_wf|]. split; [exact w_new|]. split; [exact w_planned|].
  split; [left; reflexivity|]. split; [vm_compute; reflexivity|].
  split; [vm_compute; reflexivity|]. split; [vm_compute; reflexivity|].
  split; [vm_compute; reflexivity|]. split; [vm_compute; reflexivity|].
  vm_compute. discriminate.
Qed.

(* N7: a units move whose first sub-move is rejected: routes and collections
   are back, the scores are those of the moment the group was booked planned *)
Theorem N7_rejected_group_move_stale_score_proof :
  exists gi s0 id subs k s1,
    wf_input (gi_inp gi) /\
    g_new_solution gi = Some s0 /\
    st_total s0 = sumZ (g_score_terms gi s0) /\           (* fine before *)
    g_exec_units gi s0 id subs = (s1, Rejected k) /\
    st_routes s1 = st_routes s0 /\ st_planned s1 = st_planned s0 /\
    st_unplanned s1 = st_unplanned s0 /\
    st_total s1 <> sumZ (g_score_terms gi s1).
Proof.
  exists w_gi, w_s0, w_gid, w_subs_bad, (KCapacity 0),
         (fst (g_exec_units w_gi w_s0 w_gid w_subs_bad)).
  split; [exact w_wf|]. split; [exact w_new|]. split; [vm_compute; reflexivity|].
  split; [vm_compute; reflexivity|]. split; [vm_compute; reflexivity|].
  split; [vm_compute; reflexivity|]. split; [vm_compute; reflexivity|].
  vm_compute. discriminate.
Qed.

(* ================================================================== *)
(* Part C.  The units move                                             *)
(* ================================================================== *)

(* ---- what the routes must satisfy ---------------------------------- *)

(* The ROUTE half of the engine invariant [InvT] (Proofs/Engine_inv.v): it does
   not mention the collections or the scores, which the nested operations are
   known to leave inconsistent (Part B).  It holds in the start solution and is
   kept by g_exec_move / g_unplan_unit (below). *)
Definition routes_ok (inp : input) (s : state) : Prop :=
  caches_ok inp s /\ feasible inp s /\ NoDup (interior_stops s) /\
  (forall u, u < nunits inp ->
     unit_planned inp s u = true \/
     forall x, In x (iu_stops (get_unit inp u)) -> stop_on_route s x = false) /\
  together inp s.

Lemma interior_stops_ext (s s' : state) :
  st_routes s' = st_routes s -> interior_stops s' = interior_stops s.
Proof. unfold interior_stops. intros ->. reflexivity. Qed.

Lemma routes_ok_ext (inp : input) (s s' : state) :
  st_routes s' = st_routes s -> routes_ok inp s -> routes_ok inp s'.
Proof.
  intros Hr (Hc & Hf & Hnd & Hper & Ht).
  split; [exact (caches_ok_ext inp s s' Hr Hc)|].
  split; [exact (feasible_ext inp s s' Hr Hf)|].
  split; [rewrite (interior_stops_ext s s' Hr); exact Hnd|].
  split; [|exact (together_ext inp s s' Hr Ht)].
  intros u Hu. rewrite (unit_planned_ext inp s s' u Hr).
  destruct (Hper u Hu) as [H|H]; [left; exact H|right].
  intros x Hx. rewrite (stop_on_route_ext s s' x Hr). exact (H x Hx).
Qed.

Lemma invT_routes_ok (inp : input) (c s : state) :
  InvT inp c -> st_routes s = st_routes c -> routes_ok inp s.
Proof.
  intros ((Hc & Hf & _ & (Hnd & _ & _ & _ & Hper & _)) & Ht) Hr.
  apply (routes_ok_ext inp c s Hr).
  split; [exact Hc|]. split; [exact Hf|]. split; [exact Hnd|]. split; [|exact Ht].
  intros u Hu. exact (proj2 (proj2 (Hper u Hu))).
Qed.

(* the core state with the routes of s and the collections / scores they call for *)
Definition shadow (inp : input) (s : state) : state :=
  refresh_scores inp
    (mkState (st_routes s)
             (filter (unit_planned inp s) (seqn (nunits inp)))
             (filter (fun u => negb (unit_planned inp s u)) (seqn (nunits inp)))
             [] [] 0%Z).

Lemma shadow_routes (inp : input) (s : state) : st_routes (shadow inp s) = st_routes s.
Proof. reflexivity. Qed.

Lemma shadow_invT (inp : input) (s : state) : routes_ok inp s -> InvT inp (shadow inp s).
Proof.
  intros (Hc & Hf & Hnd & Hper & Ht).
  pose proof (shadow_routes inp s) as Hr.
  split; [|exact (together_ext inp s _ Hr Ht)].
  split; [exact (caches_ok_ext inp s _ Hr Hc)|].
  split; [exact (feasible_ext inp s _ Hr Hf)|].
  split; [apply scores_ok_refresh|].
  unfold colls_ok. rewrite (interior_stops_ext s _ Hr).
  unfold shadow, refresh_scores. cbn [st_planned st_unplanned st_fixed].
  split; [exact Hnd|].
  split; [apply NoDup_filter, NoDup_seqn|].
  split; [apply NoDup_filter, NoDup_seqn|].
  split; [reflexivity|]. split.
  - intros u Hu.
    match goal with |- context [unit_planned inp ?c u] =>
      replace (unit_planned inp c u) with (unit_planned inp s u)
        by (symmetry; apply unit_planned_ext; reflexivity) end.
    rewrite !filter_In, !In_seqn, negb_true_iff.
    split; [tauto|]. split; [tauto|].
    destruct (Hper u Hu) as [H|H]; [left; exact H|right].
    intros x Hx. rewrite <- (H x Hx). apply stop_on_route_ext. reflexivity.
  - intros u. rewrite !filter_In, !In_seqn. tauto.
Qed.

Lemma move_ok_ext (inp : input) (s s' : state) (mv : move) :
  st_routes s' = st_routes s -> move_ok inp s mv -> move_ok inp s' mv.
Proof. unfold move_ok. intros Hr. rewrite (get_route_ext s s' _ Hr). tauto. Qed.

(* two states with good caches and the same stop sequences have the same routes *)
Lemma caches_same_stops (inp : input) (a b : state) :
  caches_ok inp a -> caches_ok inp b ->
  (forall v, v < nveh inp -> route_stops (get_route a v) = route_stops (get_route b v)) ->
  st_routes a = st_routes b.
Proof.
  intros (Hla & Hca) (Hlb & Hcb) Hst.
  apply (nth_ext _ _ [] []); [congruence|]. intros v Hv. rewrite Hla in Hv.
  change (get_route a v = get_route b v).
  rewrite (proj2 (Hca v Hv)), (Hst v Hv). symmetry. exact (proj2 (Hcb v Hv)).
Qed.

(* ---- the routes and the answer do not depend on the collections ----- *)

Lemma g_is_feasible_proj (gi : ginput) (a b : state) (v idx : nat) (stops : list nat) (t : bool) :
  st_routes a = st_routes b ->
  match g_is_feasible gi a v idx stops t, is_feasible (gi_inp gi) b v idx stops t with
  | inl a', inl b' => st_routes a' = st_routes b' /\ st_planned a' = st_planned a /\
                      st_unplanned a' = st_unplanned a /\ st_fixed a' = st_fixed a
  | inr k, inr k' => k = k'
  | _, _ => False
  end.
Proof.
  intros Hr. unfold g_is_feasible, is_feasible, get_route. cbv zeta. rewrite Hr.
  destruct (propagate (gi_inp gi) v t (last_cell (firstn (S idx) (nth v (st_routes b) [])))
              (skipn (S idx) stops)) as [cs|k]; [|reflexivity].
  unfold g_refresh, refresh_scores, set_route.
  cbn [st_routes st_planned st_unplanned st_fixed]. rewrite Hr. repeat split.
Qed.

Lemma g_is_feasible_colls (gi : ginput) (a a' : state) (v idx : nat) (stops : list nat) (t : bool) :
  g_is_feasible gi a v idx stops t = inl a' ->
  st_planned a' = st_planned a /\ st_unplanned a' = st_unplanned a /\ st_fixed a' = st_fixed a.
Proof.
  unfold g_is_feasible. cbv zeta.
  destruct (propagate (gi_inp gi) v t (last_cell (firstn (S idx) (get_route a v)))
              (skipn (S idx) stops)) as [cs|k]; [|discriminate].
  intros H. injection H as <-. repeat split.
Qed.

Lemma g_exec_move_fixed (gi : ginput) (s : state) (mv : move) :
  unit_fixed gi (mv_unit mv) = true -> g_exec_move gi s mv = (s, NotExecutable).
Proof. intros H. unfold g_exec_move. rewrite H, orb_true_r. reflexivity. Qed.

Lemma g_exec_move_proj (gi : ginput) (s c : state) (mv : move) :
  unit_fixed gi (mv_unit mv) = false -> st_routes s = st_routes c ->
  st_routes (fst (g_exec_move gi s mv)) = st_routes (fst (exec_move (gi_inp gi) c mv)) /\
  snd (g_exec_move gi s mv) = snd (exec_move (gi_inp gi) c mv).
Proof.
  intros Hfx Hr. unfold g_exec_move, exec_move. cbv zeta.
  rewrite Hfx, orb_false_r, (unit_planned_ext (gi_inp gi) c s (mv_unit mv) Hr),
          (get_route_ext c s (mv_vehicle mv) Hr).
  destruct (unit_planned (gi_inp gi) c (mv_unit mv)); [split; [exact Hr|reflexivity]|].
  set (s1 := if match member_group gi (mv_unit mv) with Some _ => true | None => false end
             then s else move_to_planned s (mv_unit mv)).
  assert (Hr1 : st_routes s1 = st_routes c).
  { unfold s1. destruct (member_group gi (mv_unit mv)); exact Hr. }
  match goal with |- context [is_feasible ?i ?b ?v ?idx ?st true] =>
    pose proof (g_is_feasible_proj gi s1 b v idx st true Hr1) as P1;
    destruct (g_is_feasible gi s1 v idx st true) as [s2|k];
    destruct (is_feasible i b v idx st true) as [c2|k'];
    try contradiction end.
  - cbn [fst snd]. split; [exact (proj1 P1)|reflexivity].
  - subst k'.
    set (s3 := if match member_group gi (mv_unit mv) with Some _ => true | None => false end
               then s1 else move_to_unplanned s1 (mv_unit mv)).
    assert (Hr3 : st_routes s3 = st_routes c).
    { unfold s3. destruct (member_group gi (mv_unit mv)); exact Hr1. }
    match goal with |- context [is_feasible ?i ?b ?v ?idx ?st true] =>
      match goal with |- context [g_is_feasible gi ?a v idx st true] =>
        pose proof (g_is_feasible_proj gi a b v idx st true Hr) as P2;
        destruct (g_is_feasible gi a v idx st true) as [s4|k2];
        destruct (is_feasible i b v idx st true) as [c4|k2'];
        try contradiction end end.
    + cbn [fst snd]. split; [exact (proj1 P2)|reflexivity].
    + cbn [fst snd]. split; [exact Hr3|reflexivity].
Qed.

Lemma vehicle_of_unit_ext (inp : input) (s s' : state) (u : nat) :
  st_routes s' = st_routes s -> vehicle_of_unit inp s' u = vehicle_of_unit inp s u.
Proof. intros Hr. unfold vehicle_of_unit, get_route. rewrite Hr. reflexivity. Qed.

Lemma g_unplan_unit_fixed (gi : ginput) (s : state) (u : nat) :
  unit_fixed gi u = true -> g_unplan_unit gi s u = (s, NotExecutable).
Proof. intros H. unfold g_unplan_unit. rewrite H, orb_true_r. reflexivity. Qed.

Lemma g_unplan_unit_proj (gi : ginput) (s c : state) (u : nat) :
  unit_fixed gi u = false -> st_routes s = st_routes c ->
  st_routes (fst (g_unplan_unit gi s u)) = st_routes (fst (unplan_unit (gi_inp gi) c u)) /\
  snd (g_unplan_unit gi s u) = snd (unplan_unit (gi_inp gi) c u).
Proof.
  intros Hfx Hr. unfold g_unplan_unit, unplan_unit. cbv zeta.
  rewrite Hfx, orb_false_r, (unit_planned_ext (gi_inp gi) c s u Hr),
          (vehicle_of_unit_ext (gi_inp gi) c s u Hr).
  destruct (negb (unit_planned (gi_inp gi) c u)); [split; [exact Hr|reflexivity]|].
  destruct (vehicle_of_unit (gi_inp gi) c u) as [v|]; [|split; [exact Hr|reflexivity]].
  rewrite (get_route_ext c s v Hr).
  set (s1 := move_to_unplanned s (top_of gi u)).
  assert (Hr1 : st_routes s1 = st_routes c) by exact Hr.
  match goal with |- context [is_feasible ?i ?b ?v ?idx ?st true] =>
    pose proof (g_is_feasible_proj gi s1 b v idx st true Hr1) as P1;
    destruct (g_is_feasible gi s1 v idx st true) as [s2|k];
    destruct (is_feasible i b v idx st true) as [c2|k'];
    try contradiction end.
  - cbn [fst snd]. split; [exact (proj1 P1)|reflexivity].
  - subst k'.
    set (s2 := if match member_group gi u with Some _ => true | None => false end
               then s1 else move_to_planned s1 u).
    assert (Hr2 : st_routes s2 = st_routes c).
    { unfold s2. destruct (member_group gi u); exact Hr1. }
    match goal with |- context [is_feasible ?i ?b ?v ?idx ?st true] =>
      match goal with |- context [g_is_feasible gi ?a v idx st true] =>
        pose proof (g_is_feasible_proj gi a b v idx st true Hr) as P2;
        destruct (g_is_feasible gi a v idx st true) as [s4|k2];
        destruct (is_feasible i b v idx st true) as [c4|k2'];
        try contradiction end end.
    + cbn [fst snd]. split; [exact (proj1 P2)|reflexivity].
    + cbn [fst snd]. split; [exact Hr2|reflexivity].
Qed.

(* ---- one stops move / one un-plan under routes_ok -------------------- *)

Lemma g_exec_move_routes (gi : ginput) (s s' : state) (mv : move) (r : result) :
  wf_input (gi_inp gi) -> routes_ok (gi_inp gi) s -> move_ok (gi_inp gi) s mv ->
  g_exec_move gi s mv = (s', r) ->
  r <> UndoFailed /\ routes_ok (gi_inp gi) s' /\
  (r <> Done -> st_routes s' = st_routes s) /\
  (r = Done ->
     unit_fixed gi (mv_unit mv) = false /\
     unit_planned (gi_inp gi) s (mv_unit mv) = false /\
     route_stops (get_route s' (mv_vehicle mv))
     = insert_places 0 (route_stops (get_route s (mv_vehicle mv))) (mv_places mv) /\
     forall v, v <> mv_vehicle mv -> get_route s' v = get_route s v).
Proof.
  intros Hwf Hok Hmv Hex.
  destruct (unit_fixed gi (mv_unit mv)) eqn:Efx.
  { rewrite (g_exec_move_fixed gi s mv Efx) in Hex. injection Hex as <- <-.
    split; [discriminate|]. split; [exact Hok|]. split; [reflexivity|discriminate]. }
  set (c := shadow (gi_inp gi) s).
  pose proof (shadow_invT (gi_inp gi) s Hok) as HIc. fold c in HIc.
  assert (Hr : st_routes s = st_routes c) by reflexivity.
  pose proof (move_ok_ext (gi_inp gi) s c mv (eq_sym Hr) Hmv) as Hmvc.
  destruct (g_exec_move_proj gi s c mv Efx Hr) as (Hpr & Hps).
  rewrite Hex in Hpr, Hps. cbn [fst snd] in Hpr, Hps.
  destruct (exec_move (gi_inp gi) c mv) as [c' rc] eqn:Ec. cbn [fst snd] in Hpr, Hps. subst rc.
  destruct (exec_move_core (gi_inp gi) c c' mv r Hwf (proj1 HIc) Hmvc Ec)
    as (Hnu & HI' & Ht' & Hnd & Hd).
  split; [exact Hnu|].
  split; [exact (invT_routes_ok (gi_inp gi) c' s' (conj HI' (Ht' (proj2 HIc))) Hpr)|].
  split.
  - intros Hne. rewrite Hpr. exact (proj1 (Hnd Hne)).
  - intros Hdone. destruct (Hd Hdone) as (Hins & Hoth).
    split; [reflexivity|]. split.
    + unfold g_exec_move in Hex. rewrite Efx, orb_false_r in Hex.
      destruct (unit_planned (gi_inp gi) s (mv_unit mv)); [|reflexivity].
      injection Hex as _ Hx. congruence.
    + split.
      * rewrite (get_route_ext c' s' _ Hpr), (get_route_ext c s _ Hr). exact Hins.
      * intros v Hv. rewrite (get_route_ext c' s' v Hpr), (get_route_ext c s v Hr).
        exact (Hoth v Hv).
Qed.

Lemma g_unplan_unit_routes (gi : ginput) (s s' : state) (u : nat) (r : result) :
  wf_input (gi_inp gi) -> routes_ok (gi_inp gi) s -> u < nunits (gi_inp gi) ->
  g_unplan_unit gi s u = (s', r) ->
  r <> UndoFailed /\ routes_ok (gi_inp gi) s' /\
  (r <> Done -> st_routes s' = st_routes s) /\
  (r = Done ->
     exists v, v < nveh (gi_inp gi) /\
       (forall x, In x (iu_stops (get_unit (gi_inp gi) u)) -> In x (route_stops (get_route s v))) /\
       route_stops (get_route s' v)
       = filter (fun x => negb (mem_nat x (iu_stops (get_unit (gi_inp gi) u))))
                (route_stops (get_route s v)) /\
       (forall v', v' <> v -> get_route s' v' = get_route s v')).
Proof.
  intros Hwf Hok Hu Hex.
  destruct (unit_fixed gi u) eqn:Efx.
  { rewrite (g_unplan_unit_fixed gi s u Efx) in Hex. injection Hex as <- <-.
    split; [discriminate|]. split; [exact Hok|]. split; [reflexivity|discriminate]. }
  set (c := shadow (gi_inp gi) s).
  pose proof (shadow_invT (gi_inp gi) s Hok) as HIc. fold c in HIc.
  assert (Hr : st_routes s = st_routes c) by reflexivity.
  destruct (g_unplan_unit_proj gi s c u Efx Hr) as (Hpr & Hps).
  rewrite Hex in Hpr, Hps. cbn [fst snd] in Hpr, Hps.
  destruct (unplan_unit (gi_inp gi) c u) as [c' rc] eqn:Ec. cbn [fst snd] in Hpr, Hps. subst rc.
  destruct (unplan_unit_core (gi_inp gi) c c' u r Hwf (proj1 HIc) Hu (proj2 HIc u Hu) Ec)
    as (Hnu & HI' & Ht' & Hnd & Hd).
  split; [exact Hnu|].
  split; [exact (invT_routes_ok (gi_inp gi) c' s' (conj HI' (Ht' (proj2 HIc))) Hpr)|].
  split.
  - intros Hne. rewrite Hpr. exact (proj1 (Hnd Hne)).
  - intros Hdone. destruct (Hd Hdone) as (v & Hv & _ & Hall & Hfil & Hoth & _).
    exists v. split; [exact Hv|]. split; [|split].
    + intros x Hx. rewrite (get_route_ext c s v Hr). exact (Hall x Hx).
    + rewrite (get_route_ext c' s' v Hpr), (get_route_ext c s v Hr). exact Hfil.
    + intros v' Hv'. rewrite (get_route_ext c' s' v' Hpr), (get_route_ext c s v' Hr).
      exact (Hoth v' Hv').
Qed.

(* ---- un-planning a unit right after planning it --------------------- *)

Lemma filter_not_in_all (us : list nat) (l : list nat) :
  (forall x, In x l -> In x us) -> filter (fun x => negb (mem_nat x us)) l = [].
Proof.
  intros H. induction l as [|a l IH]; [reflexivity|]. cbn [filter].
  rewrite (proj2 (mem_nat_In a us) (H a (or_introl eq_refl))). cbn [negb].
  apply IH. intros x Hx. apply H. right; exact Hx.
Qed.

Lemma filter_insert_places (us : list nat) :
  forall (route : list nat) (pos : nat) (places : list (nat * nat)),
    (forall p, In p places -> In (fst p) us) ->
    (forall x, In x route -> ~ In x us) ->
    filter (fun x => negb (mem_nat x us)) (insert_places pos route places) = route.
Proof.
  induction route as [|x rest IH]; intros pos places Hin Hout.
  - cbn [insert_places]. apply filter_not_in_all. intros y Hy.
    apply in_map_iff in Hy. destruct Hy as (p & <- & Hp). exact (Hin p Hp).
  - cbn [insert_places]. rewrite filter_app. cbn [filter].
    rewrite filter_not_in_all.
    + rewrite (proj2 (mem_nat_false x us) (Hout x (or_introl eq_refl))). cbn [negb app].
      f_equal. apply IH.
      * intros p Hp. apply filter_In in Hp. exact (Hin p (proj1 Hp)).
      * intros y Hy. apply Hout. right; exact Hy.
    + intros y Hy. apply in_map_iff in Hy. destruct Hy as (p & <- & Hp).
      apply filter_In in Hp. exact (Hin p (proj1 Hp)).
Qed.

Lemma stop_off_route_not_in (inp : input) (s : state) (x v : nat) :
  caches_ok inp s -> v < nveh inp -> stop_on_route s x = false ->
  ~ In x (route_stops (get_route s v)).
Proof.
  intros (Hlen & _) Hv Hoff Hin.
  assert (H : stop_on_route s x = true).
  { apply stop_on_route_iff. exists v. split; [rewrite Hlen; exact Hv|exact Hin]. }
  congruence.
Qed.

(* plan u on s (Done, giving s1); on ANY state with the routes of s1 a Done
   un-plan of u gives back the routes of s *)
Lemma undo_one (gi : ginput) (s s1 t t' : state) (mv : move) :
  wf_input (gi_inp gi) -> routes_ok (gi_inp gi) s -> move_ok (gi_inp gi) s mv ->
  g_exec_move gi s mv = (s1, Done) ->
  st_routes t = st_routes s1 ->
  g_unplan_unit gi t (mv_unit mv) = (t', Done) ->
  st_routes t' = st_routes s.
Proof.
  intros Hwf Hok Hmv Hex Hrt Hun.
  destruct (g_exec_move_routes gi s s1 mv Done Hwf Hok Hmv Hex) as (_ & Hok1 & _ & Hd).
  destruct (Hd eq_refl) as (_ & Hnpl & Hins & Hoth). clear Hd.
  pose proof (routes_ok_ext (gi_inp gi) s1 t Hrt Hok1) as Hokt.
  pose proof Hmv as (Hu & Hmvv & Hperm & _).
  destruct (g_unplan_unit_routes gi t t' (mv_unit mv) Done Hwf Hokt Hu Hun) as (_ & Hokt' & _ & Hd).
  destruct (Hd eq_refl) as (v & Hv & Hall & Hfil & Hoth'). clear Hd.
  set (inp := gi_inp gi) in *.
  set (u := mv_unit mv) in *. set (us := iu_stops (get_unit inp u)) in *.
  (* the unit was off the routes in s *)
  assert (Hoff : forall x, In x us -> stop_on_route s x = false).
  { destruct Hok as (_ & _ & _ & Hper & _). destruct (Hper u Hu) as [H|H]; [congruence|exact H]. }
  (* the vehicle un-plan works on is the vehicle of the move *)
  assert (Hvv : v = mv_vehicle mv).
  { destruct (nonempty_has_elem us (unit_stops_nonempty inp u Hwf Hu)) as (x & Hx).
    destruct Hok1 as (Hc1 & _ & Hnd1 & _).
    apply (interior_unique inp s1 x v (mv_vehicle mv) Hc1 Hnd1 Hv Hmvv
             (unit_stops_lt inp u x Hwf Hu Hx)).
    - rewrite <- (get_route_ext s1 t v Hrt). exact (Hall x Hx).
    - rewrite Hins. apply (Permutation_in x (Permutation_sym (insert_places_perm _ _ _))).
      apply in_or_app. right. apply (Permutation_in x (Permutation_sym Hperm)). exact Hx. }
  subst v.
  apply (caches_same_stops inp t' s (proj1 Hokt') (proj1 Hok)).
  intros v Hv'. destruct (Nat.eq_dec v (mv_vehicle mv)) as [->|Hne].
  - rewrite Hfil, (get_route_ext s1 t _ Hrt), Hins.
    apply filter_insert_places.
    + intros p Hp. apply (Permutation_in (fst p) Hperm). apply in_map. exact Hp.
    + intros x Hx Hxu. exact (stop_off_route_not_in inp s x _ (proj1 Hok) Hmvv (Hoff x Hxu) Hx).
  - rewrite (Hoth' v Hne), (get_route_ext s1 t v Hrt), (Hoth v Hne). reflexivity.
Qed.

(* ---- the core un-plan answers Done when the route without the unit is fine *)

Lemma unplan_unit_complete (inp : input) (c : state) (u : nat) :
  wf_input inp -> caches_ok inp c -> u < nunits inp -> unit_planned inp c u = true ->
  (forall v, v < nveh inp -> vehicle_of_unit inp c u = Some v ->
     Forall (cell_ok inp v)
       (tl (from_scratch inp v
              (filter (fun x => negb (mem_nat x (iu_stops (get_unit inp u))))
                      (route_stops (get_route c v)))))) ->
  snd (unplan_unit inp c u) = Done.
Proof.
  intros Hwf Hc Hu Epl Hfine.
  pose proof Hc as (Hlen & Hc').
  unfold unplan_unit. cbv zeta. rewrite Epl. cbn [negb].
  destruct (vehicle_of_unit inp c u) as [v|] eqn:Ev.
  - destruct (vehicle_of_unit_some inp c u v Ev) as (Hvl & _).
    assert (Hv : v < nveh inp) by (rewrite <- Hlen; exact Hvl).
    specialize (Hfine v Hv eq_refl).
    destruct (Hc' v Hv) as ((mid & Hold & Hmid) & Hcache).
    set (us := iu_stops (get_unit inp u)) in *.
    set (old_stops := route_stops (get_route c v)) in *.
    assert (Hfirst : mem_nat (first_stop inp v) us = false).
    { apply mem_nat_false. intros H. apply (unit_stops_lt inp u _ Hwf Hu) in H.
      pose proof (first_stop_ge inp v). lia. }
    set (new_stops := filter (fun x => negb (mem_nat x us)) old_stops) in *.
    assert (Hne : new_stops <> []).
    { unfold new_stops. rewrite Hold. cbn [filter]. rewrite Hfirst. discriminate. }
    assert (Hpre : firstn (S (first_gap (places_of us 0 old_stops) - 1)) new_stops
                   = firstn (S (first_gap (places_of us 0 old_stops) - 1)) old_stops).
    { unfold new_stops. rewrite Hold.
      exact (places_of_firstn us (first_stop inp v) (mid ++ [last_stop inp v]) Hfirst). }
    match goal with |- context [is_feasible inp ?a v ?i new_stops true] =>
      destruct (is_feasible_spec inp a v i old_stops new_stops true Hcache Hne Hpre) as (_ & Hspec);
      rewrite Hspec; [reflexivity|] end.
    unfold cell_ok in Hfine.
    destruct (from_scratch inp v new_stops) as [|c0 r]; [constructor|].
    cbn [tl skipn] in *. apply Forall_skipn'. exact Hfine.
  - exfalso. apply unit_planned_iff in Epl. destruct Epl as (Hne & Hall).
    unfold vehicle_of_unit in Ev.
    destruct (iu_stops (get_unit inp u)) as [|x0 l]; [congruence|].
    specialize (Hall x0 (or_introl eq_refl)). apply stop_on_route_iff in Hall.
    destruct Hall as (v & Hv & Hin).
    pose proof (find_none _ _ Ev v (proj2 (In_seqn _ v) Hv)) as Hf. cbv beta in Hf.
    apply mem_nat_false in Hf. exact (Hf Hin).
Qed.

(* un-planning the unit just planned always succeeds (the route it leaves is
   the feasible route the unit was planned into) *)
Lemma undo_one_done (gi : ginput) (s s1 t : state) (mv : move) :
  wf_input (gi_inp gi) -> routes_ok (gi_inp gi) s -> move_ok (gi_inp gi) s mv ->
  g_exec_move gi s mv = (s1, Done) ->
  st_routes t = st_routes s1 ->
  snd (g_unplan_unit gi t (mv_unit mv)) = Done.
Proof.
  intros Hwf Hok Hmv Hex Hrt.
  destruct (g_exec_move_routes gi s s1 mv Done Hwf Hok Hmv Hex) as (_ & Hok1 & _ & Hd).
  destruct (Hd eq_refl) as (Efx & Hnpl & Hins & Hoth). clear Hd.
  pose proof (routes_ok_ext (gi_inp gi) s1 t Hrt Hok1) as Hokt.
  pose proof Hmv as (Hu & Hmvv & Hperm & _).
  rewrite (proj2 (g_unplan_unit_proj gi t t (mv_unit mv) Efx eq_refl)).
  set (inp := gi_inp gi) in *. set (u := mv_unit mv) in *.
  set (us := iu_stops (get_unit inp u)) in *.
  assert (Hoff : forall x, In x us -> stop_on_route s x = false).
  { destruct Hok as (_ & _ & _ & Hper & _). destruct (Hper u Hu) as [H|H]; [congruence|exact H]. }
  assert (Hon : forall x, In x us -> In x (route_stops (get_route t (mv_vehicle mv)))).
  { intros x Hx. rewrite (get_route_ext s1 t _ Hrt), Hins.
    apply (Permutation_in x (Permutation_sym (insert_places_perm _ _ _))).
    apply in_or_app. right. apply (Permutation_in x (Permutation_sym Hperm)). exact Hx. }
  destruct Hokt as (Hct & _ & Hndt & _).
  apply (unplan_unit_complete inp t u Hwf Hct Hu).
  - apply unit_planned_iff. split; [exact (unit_stops_nonempty inp u Hwf Hu)|].
    intros x Hx. apply stop_on_route_iff. exists (mv_vehicle mv).
    split; [rewrite (proj1 Hct); exact Hmvv|exact (Hon x Hx)].
  - intros v Hv Ev.
    destruct (vehicle_of_unit_some inp t u v Ev) as (_ & x0 & Hx0 & Hx0v).
    assert (Hvv : v = mv_vehicle mv).
    { exact (interior_unique inp t x0 v (mv_vehicle mv) Hct Hndt Hv Hmvv
               (unit_stops_lt inp u x0 Hwf Hu Hx0) Hx0v (Hon x0 Hx0)). }
    subst v. rewrite (get_route_ext s1 t _ Hrt), Hins.
    fold us. rewrite filter_insert_places.
    + destruct Hok as ((_ & Hcs) & Hfs & _).
      rewrite <- (proj2 (Hcs _ Hmvv)). exact (Hfs _ Hmvv).
    + intros p Hp. apply (Permutation_in (fst p) Hperm). apply in_map. exact Hp.
    + intros x Hx Hxu. exact (stop_off_route_not_in inp s x _ (proj1 Hok) Hmvv (Hoff x Hxu) Hx).
Qed.

(* ---- the units move -------------------------------------------------- *)

(* every sub-move is well formed for the state it is executed on (as [fresh]
   of Proofs/Engine_inv.v; asked only along the Done path, the only one taken) *)
Fixpoint subs_fresh (gi : ginput) (s : state) (subs : list submove) : Prop :=
  match subs with
  | [] => True
  | sb :: rest =>
      move_ok (gi_inp gi) s (sub_to_move s sb) /\
      forall s1, g_exec_move gi s (sub_to_move s sb) = (s1, Done) -> subs_fresh gi s1 rest
  end.

Lemma move_to_planned_routes (s : state) (id : nat) : st_routes (move_to_planned s id) = st_routes s.
Proof. reflexivity. Qed.
Lemma move_to_unplanned_routes (s : state) (id : nat) : st_routes (move_to_unplanned s id) = st_routes s.
Proof. reflexivity. Qed.

(* [restores gi R t done]: undoing [done] from any state with the routes of t
   succeeds and gives the routes R *)
Definition restores (gi : ginput) (R : list (list cell)) (s : state) (done : list nat) : Prop :=
  forall t, st_routes t = st_routes s ->
    snd (undo_members gi t done) = true /\ st_routes (fst (undo_members gi t done)) = R.

Lemma restores_nil (gi : ginput) (s : state) : restores gi (st_routes s) s [].
Proof. intros t Ht. cbn [undo_members fst snd]. split; [reflexivity|exact Ht]. Qed.

Lemma restores_cons (gi : ginput) (R : list (list cell)) (s s1 : state) (mv : move) (done : list nat) :
  wf_input (gi_inp gi) -> routes_ok (gi_inp gi) s -> move_ok (gi_inp gi) s mv ->
  g_exec_move gi s mv = (s1, Done) ->
  restores gi R s done -> restores gi R s1 (mv_unit mv :: done).
Proof.
  intros Hwf Hok Hmv Hex Hres t Ht. cbn [undo_members].
  pose proof (undo_one_done gi s s1 t mv Hwf Hok Hmv Hex Ht) as Hd.
  destruct (g_unplan_unit gi t (mv_unit mv)) as [t1 r1] eqn:Eun. cbn [snd] in Hd. subst r1.
  apply Hres. exact (undo_one gi s s1 t t1 mv Hwf Hok Hmv Hex Ht Eun).
Qed.

Lemma exec_subs_spec (gi : ginput) (id : nat) (sR : state) :
  wf_input (gi_inp gi) -> routes_ok (gi_inp gi) sR ->
  forall (subs : list submove) (s : state) (done : list nat) (s' : state) (r : result),
    routes_ok (gi_inp gi) s -> subs_fresh gi s subs -> restores gi (st_routes sR) s done ->
    exec_subs gi id s subs done = (s', r) ->
    r <> UndoFailed /\ routes_ok (gi_inp gi) s' /\ (r <> Done -> st_routes s' = st_routes sR).
Proof.
  intros Hwf HokR. induction subs as [|sb rest IH]; intros s done s' r Hok Hfr Hres Hex.
  - cbn [exec_subs] in Hex. injection Hex as <- <-.
    split; [discriminate|]. split; [exact Hok|]. intros H; congruence.
  - cbn [exec_subs subs_fresh] in Hex, Hfr. destruct Hfr as (Hmv & Hfr).
    destruct (g_exec_move gi s (sub_to_move s sb)) as [s1 r1] eqn:Em.
    destruct (g_exec_move_routes gi s s1 _ r1 Hwf Hok Hmv Em) as (_ & Hok1 & Hnd & _).
    assert (Hfail : r1 <> Done ->
              forall r2, (let s2 := move_to_unplanned s1 id in
                          let '(s3, ok) := undo_members gi s2 done in
                          (s3, if ok then r2 else UndoFailed)) = (s', r) ->
              r2 <> Done -> r2 <> UndoFailed ->
              r <> UndoFailed /\ routes_ok (gi_inp gi) s' /\
              (r <> Done -> st_routes s' = st_routes sR)).
    { intros Hne r2 H Hr2 Hr2'. cbv zeta in H.
      assert (Ht : st_routes (move_to_unplanned s1 id) = st_routes s).
      { rewrite move_to_unplanned_routes. exact (Hnd Hne). }
      destruct (Hres _ Ht) as (Hokk & HR).
      destruct (undo_members gi (move_to_unplanned s1 id) done) as [s3 ok].
      cbn [fst snd] in Hokk, HR. subst ok. injection H as <- <-.
      split; [exact Hr2'|]. split; [|intros _; exact HR].
      exact (routes_ok_ext (gi_inp gi) sR s3 HR HokR). }
    destruct r1 as [|k| |].
    + apply (IH s1 (sb_unit sb :: done) s' r Hok1 (Hfr s1 eq_refl)); [|exact Hex].
      exact (restores_cons gi (st_routes sR) s s1 (sub_to_move s sb) done Hwf Hok Hmv Em Hres).
    + apply (Hfail ltac:(discriminate) (Rejected k) Hex); discriminate.
    + apply (Hfail ltac:(discriminate) NotExecutable Hex); discriminate.
    + apply (Hfail ltac:(discriminate) NotExecutable Hex); discriminate.
Qed.

(* C1.  All-or-nothing on the routes, and the undo never fails.

   The routes are restored whenever the answer is not Done and not UndoFailed
   (then every member undo answered Done); under [routes_ok] and [subs_fresh]
   the answer UndoFailed is impossible, because the members are un-planned in
   reverse order and each un-plan leads back to a route that was feasible. *)
Theorem g_exec_units_routes_all_or_nothing_proof :
  forall (gi : ginput) (s : state) (id : nat) (subs : list submove) (s' : state) (r : result),
    wf_input (gi_inp gi) -> routes_ok (gi_inp gi) s ->
    subs_fresh gi (move_to_planned s id) subs ->
    g_exec_units gi s id subs = (s', r) ->
    r <> UndoFailed /\ routes_ok (gi_inp gi) s' /\ (r <> Done -> st_routes s' = st_routes s).
Proof.
  intros gi s id subs s' r Hwf Hok Hfr Hex. unfold g_exec_units in Hex.
  destruct (top_planned gi s id || top_fixed gi id).
  - injection Hex as <- <-. split; [discriminate|]. split; [exact Hok|reflexivity].
  - apply (exec_subs_spec gi id s Hwf Hok subs (move_to_planned s id) [] s' r); [| |
      |exact Hex].
    + exact (routes_ok_ext (gi_inp gi) s _ (move_to_planned_routes s id) Hok).
    + exact Hfr.
    + exact (restores_nil gi (move_to_planned s id)).
Qed.

(* ---- C2.  Done books the group ---------------------------------------- *)

Lemma g_exec_move_done_colls (gi : ginput) (s s' : state) (mv : move) (id : nat) :
  g_exec_move gi s mv = (s', Done) ->
  (In id (st_planned s) -> In id (st_planned s')) /\
  (~ In id (st_unplanned s) -> ~ In id (st_unplanned s')).
Proof.
  unfold g_exec_move. cbv zeta.
  destruct (unit_planned (gi_inp gi) s (mv_unit mv) || unit_fixed gi (mv_unit mv)); [discriminate|].
  set (s1 := if match member_group gi (mv_unit mv) with Some _ => true | None => false end
             then s else move_to_planned s (mv_unit mv)).
  assert (H1 : (In id (st_planned s) -> In id (st_planned s1)) /\
               (~ In id (st_unplanned s) -> ~ In id (st_unplanned s1))).
  { unfold s1. destruct (member_group gi (mv_unit mv)); [tauto|].
    unfold move_to_planned, with_colls. cbn [st_planned st_unplanned]. split.
    - intros H. apply In_coll_add. right; exact H.
    - intros H H'. apply In_coll_remove in H'. tauto. }
  match goal with |- context [g_is_feasible gi s1 ?v ?i ?st true] =>
    destruct (g_is_feasible gi s1 v i st true) as [s2|k] eqn:E1 end.
  - intros H. injection H as <-.
    destruct (g_is_feasible_colls gi s1 s2 _ _ _ _ E1) as (Hp & Hu & _).
    rewrite Hp, Hu. exact H1.
  - match goal with |- context [match ?X with inl _ => _ | inr _ => _ end] => destruct X end;
      discriminate.
Qed.

Lemma exec_subs_done_colls (gi : ginput) (id : nat) :
  forall (subs : list submove) (s : state) (done : list nat) (s' : state),
    exec_subs gi id s subs done = (s', Done) ->
    (In id (st_planned s) -> In id (st_planned s')) /\
    (~ In id (st_unplanned s) -> ~ In id (st_unplanned s')).
Proof.
  induction subs as [|sb rest IH]; intros s done s' Hex.
  - cbn [exec_subs] in Hex. injection Hex as <-. tauto.
  - cbn [exec_subs] in Hex.
    destruct (g_exec_move gi s (sub_to_move s sb)) as [s1 r1] eqn:Em.
    destruct r1 as [|k| |].
    + destruct (g_exec_move_done_colls gi s s1 _ id Em) as (A & B).
      destruct (IH s1 _ s' Hex) as (A' & B'). split; auto.
    + cbv zeta in Hex. destruct (undo_members gi (move_to_unplanned s1 id) done) as [s3 [|]];
        discriminate.
    + cbv zeta in Hex. destruct (undo_members gi (move_to_unplanned s1 id) done) as [s3 [|]];
        discriminate.
    + cbv zeta in Hex. destruct (undo_members gi (move_to_unplanned s1 id) done) as [s3 [|]];
        discriminate.
Qed.

(* the bookkeeping half needs no hypothesis at all *)
Theorem g_exec_units_done_colls_proof :
  forall (gi : ginput) (s : state) (id : nat) (subs : list submove) (s' : state),
    g_exec_units gi s id subs = (s', Done) ->
    In id (st_planned s') /\ ~ In id (st_unplanned s').
Proof.
  intros gi s id subs s' Hex. unfold g_exec_units in Hex.
  destruct (top_planned gi s id || top_fixed gi id); [discriminate|].
  destruct (exec_subs_done_colls gi id subs _ [] s' Hex) as (A & B). split.
  - apply A. unfold move_to_planned, with_colls. cbn [st_planned].
    apply In_coll_add. left; reflexivity.
  - apply B. unfold move_to_planned, with_colls. cbn [st_unplanned].
    intros H. apply In_coll_remove in H. destruct H as (_ & H). congruence.
Qed.

(* a Done stops move keeps every planned unit planned and plans its own unit *)
Lemma g_exec_move_done_planned (gi : ginput) (s s' : state) (mv : move) :
  wf_input (gi_inp gi) -> routes_ok (gi_inp gi) s -> move_ok (gi_inp gi) s mv ->
  g_exec_move gi s mv = (s', Done) ->
  (forall m, unit_planned (gi_inp gi) s m = true -> unit_planned (gi_inp gi) s' m = true) /\
  unit_planned (gi_inp gi) s' (mv_unit mv) = true.
Proof.
  intros Hwf Hok Hmv Hex.
  destruct (g_exec_move_routes gi s s' mv Done Hwf Hok Hmv Hex) as (_ & Hok' & _ & Hd).
  destruct (Hd eq_refl) as (_ & _ & Hins & Hoth). clear Hd.
  pose proof Hmv as (Hu & Hmvv & Hperm & _).
  pose proof (proj1 (proj1 Hok)) as Hlen. pose proof (proj1 (proj1 Hok')) as Hlen'.
  assert (Hmono : forall x, stop_on_route s x = true -> stop_on_route s' x = true).
  { intros x Hx. apply stop_on_route_iff in Hx. destruct Hx as (v & Hv & Hin).
    apply stop_on_route_iff. exists v. split; [rewrite Hlen', <- Hlen; exact Hv|].
    destruct (Nat.eq_dec v (mv_vehicle mv)) as [->|Hne].
    - rewrite Hins. apply (Permutation_in x (Permutation_sym (insert_places_perm _ _ _))).
      apply in_or_app. left; exact Hin.
    - rewrite (Hoth v Hne). exact Hin. }
  split.
  - intros m Hm. apply unit_planned_iff in Hm. destruct Hm as (Hne & Hall).
    apply unit_planned_iff. split; [exact Hne|]. intros x Hx. exact (Hmono x (Hall x Hx)).
  - apply unit_planned_iff. split; [exact (unit_stops_nonempty _ _ Hwf Hu)|].
    intros x Hx. apply stop_on_route_iff. exists (mv_vehicle mv).
    split; [rewrite Hlen'; exact Hmvv|].
    rewrite Hins. apply (Permutation_in x (Permutation_sym (insert_places_perm _ _ _))).
    apply in_or_app. right. apply (Permutation_in x (Permutation_sym Hperm)). exact Hx.
Qed.

Lemma exec_subs_done_planned (gi : ginput) (id : nat) :
  wf_input (gi_inp gi) ->
  forall (subs : list submove) (s : state) (done : list nat) (s' : state),
    routes_ok (gi_inp gi) s -> subs_fresh gi s subs ->
    exec_subs gi id s subs done = (s', Done) ->
    (forall m, unit_planned (gi_inp gi) s m = true -> unit_planned (gi_inp gi) s' m = true) /\
    (forall m, In m (map sb_unit subs) -> unit_planned (gi_inp gi) s' m = true).
Proof.
  intros Hwf. induction subs as [|sb rest IH]; intros s done s' Hok Hfr Hex.
  - cbn [exec_subs] in Hex. injection Hex as <-. split; [auto|]. intros m [].
  - cbn [exec_subs subs_fresh] in Hex, Hfr. destruct Hfr as (Hmv & Hfr).
    destruct (g_exec_move gi s (sub_to_move s sb)) as [s1 r1] eqn:Em.
    destruct r1 as [|k| |].
    + destruct (g_exec_move_routes gi s s1 _ Done Hwf Hok Hmv Em) as (_ & Hok1 & _).
      destruct (g_exec_move_done_planned gi s s1 _ Hwf Hok Hmv Em) as (Hmono & Hown).
      destruct (IH s1 _ s' Hok1 (Hfr s1 eq_refl) Hex) as (Hmono' & Hrest).
      split; [intros m Hm; exact (Hmono' m (Hmono m Hm))|].
      intros m [<-|Hm]; [exact (Hmono' _ Hown)|exact (Hrest m Hm)].
    + cbv zeta in Hex. destruct (undo_members gi (move_to_unplanned s1 id) done) as [s3 [|]];
        discriminate.
    + cbv zeta in Hex. destruct (undo_members gi (move_to_unplanned s1 id) done) as [s3 [|]];
        discriminate.
    + cbv zeta in Hex. destruct (undo_members gi (move_to_unplanned s1 id) done) as [s3 [|]];
        discriminate.
Qed.

Theorem g_exec_units_done_books_group_proof :
  forall (gi : ginput) (s : state) (id : nat) (subs : list submove) (s' : state),
    wf_input (gi_inp gi) -> routes_ok (gi_inp gi) s ->
    subs_fresh gi (move_to_planned s id) subs ->
    members_of gi id <> [] -> incl (members_of gi id) (map sb_unit subs) ->
    g_exec_units gi s id subs = (s', Done) ->
    In id (st_planned s') /\ ~ In id (st_unplanned s') /\ top_planned gi s' id = true.
Proof.
  intros gi s id subs s' Hwf Hok Hfr Hne Hincl Hex.
  destruct (g_exec_units_done_colls_proof gi s id subs s' Hex) as (A & B).
  split; [exact A|]. split; [exact B|].
  unfold g_exec_units in Hex.
  destruct (top_planned gi s id || top_fixed gi id); [discriminate|].
  destruct (exec_subs_done_planned gi id Hwf subs _ [] s'
              (routes_ok_ext (gi_inp gi) s _ (move_to_planned_routes s id) Hok) Hfr Hex)
    as (_ & Hall).
  unfold top_planned. destruct (members_of gi id) as [|m ms] eqn:Em; [congruence|].
  apply forallb_forall. intros x Hx. apply Hall. apply Hincl. exact Hx.
Qed.

(* ---- routes_ok is met in the start solution and kept by the group un-plan *)

Lemma g_new_solution_routes_ok (gi : ginput) (s : state) :
  wf_input (gi_inp gi) -> no_initial gi -> g_new_solution gi = Some s -> routes_ok (gi_inp gi) s.
Proof.
  intros Hwf Hi Hns. unfold g_new_solution in Hns. cbv zeta in Hns.
  destruct (new_solution (gi_inp gi)) as [s0|] eqn:E0; [|discriminate].
  rewrite (init_vehicles_no_initial gi _ _ Hi) in Hns. injection Hns as <-.
  apply (invT_routes_ok (gi_inp gi) s0 _ (new_solution_invT (gi_inp gi) s0 Hwf E0)). reflexivity.
Qed.

Lemma unit_planned_lt (inp : input) (s : state) (u : nat) :
  unit_planned inp s u = true -> u < nunits inp.
Proof.
  intros H. destruct (Nat.lt_ge_cases u (nunits inp)) as [Hlt|Hge]; [exact Hlt|exfalso].
  unfold unit_planned, get_unit in H. rewrite nth_overflow in H by exact Hge. discriminate.
Qed.

Lemma g_unplan_group_routes_ok (gi : ginput) (s s' : state) (id : nat) (r : result) :
  wf_input (gi_inp gi) -> routes_ok (gi_inp gi) s ->
  g_unplan_group gi s id = (s', r) -> routes_ok (gi_inp gi) s'.
Proof.
  intros Hwf Hok Hex. unfold g_unplan_group in Hex.
  destruct (negb (top_planned gi s id) || top_fixed gi id); [injection Hex as <- _; exact Hok|].
  cbv zeta in Hex. injection Hex as <- _.
  assert (H1 : routes_ok (gi_inp gi) (move_to_unplanned s id)).
  { exact (routes_ok_ext (gi_inp gi) s _ (move_to_unplanned_routes s id) Hok). }
  revert H1. generalize (move_to_unplanned s id). clear Hok.
  induction (members_of gi id) as [|m ms IH]; intros st Hst; [exact Hst|].
  cbn [fold_left]. apply IH.
  destruct (unit_planned (gi_inp gi) st m) eqn:Epl; [|exact Hst].
  destruct (g_unplan_unit gi st m) as [st' r'] eqn:Eu.
  destruct (g_unplan_unit_routes gi st st' m r' Hwf Hst (unit_planned_lt _ _ _ Epl) Eu)
    as (_ & Hok' & _).
  destruct r'; [exact Hok'| | |];
    exact (routes_ok_ext (gi_inp gi) st' _ (move_to_planned_routes st' id) Hok').
Qed.

(* ---- non-vacuity and necessity of the hypotheses ---------------------- *)

Example w_routes_ok : routes_ok w_inp w_s0.
Proof. exact (g_new_solution_routes_ok w_gi w_s0 w_wf (Forall_cons _ eq_refl (Forall_nil _)) w_new). Qed.

Ltac solve_move_ok :=
  unfold move_ok; vm_compute;
  repeat match goal with |- _ /\ _ => split end;
  try lia; try apply Permutation_refl; try discriminate; repeat constructor.

Example w_subs_fresh : subs_fresh w_gi (move_to_planned w_s0 w_gid) w_subs.
Proof.
  cbn [subs_fresh w_subs]. split; [solve_move_ok|].
  intros s1 H1. vm_compute in H1. injection H1 as <-.
  split; [solve_move_ok|]. intros s2 _. exact I.
Qed.

(* C2 applies to the witness run of Part B (before its un-plans) *)
Example w_done_books_group :
  In w_gid (st_planned w_s1) /\ ~ In w_gid (st_unplanned w_s1) /\ top_planned w_gi w_s1 w_gid = true.
Proof.
  apply (g_exec_units_done_books_group_proof w_gi w_s0 w_gid w_subs w_s1 w_wf w_routes_ok
           w_subs_fresh); [discriminate| |exact w_planned].
  intros x Hx. exact Hx.
Qed.

(* C1 applies with a real rollback: stop 0 goes in (Done), then stop 1 IN FRONT
   of stop 0 is rejected (level -1), stop 0 is un-planned again *)
Definition w_subs_undo : list submove := [mkSub 0 0 [(0, 3)]; mkSub 1 0 [(1, 0)]].
Example w_subs_undo_fresh : subs_fresh w_gi (move_to_planned w_s0 w_gid) w_subs_undo.
Proof.
  cbn [subs_fresh w_subs_undo]. split; [solve_move_ok|].
  intros s1 H1. vm_compute in H1. injection H1 as <-.
  split; [solve_move_ok|]. intros s2 _. exact I.
Qed.
Example w_undo_answer : snd (g_exec_units w_gi w_s0 w_gid w_subs_undo) = Rejected (KCapacity 0).
Proof. vm_compute. reflexivity. Qed.
Example w_undo_routes : st_routes (fst (g_exec_units w_gi w_s0 w_gid w_subs_undo)) = st_routes w_s0.
Proof.
  destruct (g_exec_units w_gi w_s0 w_gid w_subs_undo) as [s' r] eqn:E.
  destruct (g_exec_units_routes_all_or_nothing_proof w_gi w_s0 w_gid w_subs_undo s' r
              w_wf w_routes_ok w_subs_undo_fresh E) as (_ & _ & H).
  apply H. pose proof w_undo_answer as A. rewrite E in A. cbn [snd] in A. rewrite A. discriminate.
Qed.

(* [subs_fresh] cannot be dropped from C1.  Stops a=0, x=1, y=2, z=3; units
   0:[a] 1:[x;y] 2:[z]; group {1, 2} (id 3).  With a planned, the sub-move of
   unit 1 lists its gaps in DECREASING order (x in front of the last stop, y in
   front of a): Execute recomputes the route only from the first listed gap on,
   so it answers Done on the route  first a a x last  (y is lost, a doubled).
   Then z (picks up 5, capacity 1) is rejected, the undo of unit 1 finds the
   unit "not planned", and the units move answers UndoFailed with the broken
   route left behind. *)
Definition u_mat : list (list Z) := map (fun _ => [0;0;0;0;0;0]%Z) [0;0;0;0;0;0].
Definition u_inp : input :=
  mkInput [] [mkIStop [0%Z] 0%Z [] None 10%Z [] None 0%Z 0%Z; mkIStop [0%Z] 0%Z [] None 10%Z [] None 0%Z 0%Z;
              mkIStop [0%Z] 0%Z [] None 10%Z [] None 0%Z 0%Z; mkIStop [(-5)%Z] 0%Z [] None 10%Z [] None 0%Z 0%Z]
          [mkIVehicle (Some [1%Z]) [0%Z] 0%Z None None None None None [] 0%Z true true 0%Z 0%Z 1%Z 1%Z]
          [mkIUnit [0] []; mkIUnit [1; 2] []; mkIUnit [3] []]
          u_mat u_mat 1 w_opts [].
Definition u_gi : ginput := mkGInput u_inp [[1; 2]] [[]].
Definition u_s0 : state :=
  Eval vm_compute in match g_new_solution u_gi with Some s => s | None => w_dummy end.
Definition u_mv0 : move := mkMove 0 0 [(0, 1)].
Definition u_s1 : state := Eval vm_compute in fst (g_exec_move u_gi u_s0 u_mv0).
Definition u_subs : list submove := [mkSub 1 0 [(1, 5); (2, 0)]; mkSub 2 0 [(3, 5)]].

Lemma u_wf : wf_input u_inp.
Proof.
  split; [|split; [|split; [|split; [exact (Forall_nil _)|mult_wf]]]].
  - vm_compute. repeat (constructor; [simpl; lia|]). constructor.
  - intros x. vm_compute. lia.
  - intros u Hu. vm_compute in Hu. destruct Hu as [<-|[<-|[<-|[]]]]; discriminate.
Qed.

Theorem subs_fresh_needed :
  exists gi s id subs s',
    wf_input (gi_inp gi) /\ routes_ok (gi_inp gi) s /\
    g_exec_units gi s id subs = (s', UndoFailed) /\
    st_routes s' <> st_routes s /\ ~ subs_fresh gi (move_to_planned s id) subs.
Proof.
  exists u_gi, u_s1, 3, u_subs, (fst (g_exec_units u_gi u_s1 3 u_subs)).
  assert (Hok0 : routes_ok u_inp u_s0).
  { apply (g_new_solution_routes_ok u_gi u_s0 u_wf (Forall_cons _ eq_refl (Forall_nil _))).
    vm_compute. reflexivity. }
  assert (Hmv : move_ok u_inp u_s0 u_mv0) by solve_move_ok.
  assert (Hok1 : routes_ok u_inp u_s1).
  { apply (g_exec_move_routes u_gi u_s0 u_s1 u_mv0 Done u_wf Hok0 Hmv). vm_compute. reflexivity. }
  split; [exact u_wf|]. split; [exact Hok1|]. split; [vm_compute; reflexivity|].
  split; [vm_compute; discriminate|].
  intros ((_ & _ & _ & _ & Hsorted & _) & _). vm_compute in Hsorted.
  inversion Hsorted as [|a l _ Hhd]; subst. inversion Hhd; subst. lia.
Qed.

(* ---- the definitions of this file, spelled out (for Props/Units.v) ----- *)

Lemma flat_unfold_proof : forall gi,
  flat gi <-> gi_groups gi = [] /\ Forall (fun l => l = []) (gi_initial gi).
Proof. intros gi. reflexivity. Qed.

Lemma routes_ok_unfold_proof : forall inp s,
  routes_ok inp s <->
  caches_ok inp s /\ feasible inp s /\ NoDup (interior_stops s) /\
  (forall u, u < nunits inp ->
     unit_planned inp s u = true \/
     forall x, In x (iu_stops (get_unit inp u)) -> stop_on_route s x = false) /\
  together inp s.
Proof. intros inp s. reflexivity. Qed.

(* routes_ok = "the routes are those of some state satisfying the invariant
   InvT of the core engine" *)
Lemma routes_ok_iff_core_proof : forall inp s,
  routes_ok inp s <-> exists c, InvT inp c /\ st_routes c = st_routes s.
Proof.
  intros inp s. split.
  - intros H. exists (shadow inp s). split; [exact (shadow_invT inp s H)|reflexivity].
  - intros (c & HI & Hr). exact (invT_routes_ok inp c s HI (eq_sym Hr)).
Qed.

Lemma subs_fresh_unfold_proof : forall gi s sb rest,
  (subs_fresh gi s [] <-> True) /\
  (subs_fresh gi s (sb :: rest) <->
   move_ok (gi_inp gi) s (sub_to_move s sb) /\
   forall s1, g_exec_move gi s (sub_to_move s sb) = (s1, Done) -> subs_fresh gi s1 rest).
Proof. intros gi s sb rest. split; reflexivity. Qed.

Lemma g_reachable_unfold_proof : forall gi s,
  g_reachable gi s <->
  exists s0 h, g_new_solution gi = Some s0 /\ g_fresh gi s0 h /\ In s (g_run gi s0 h).
Proof. intros gi s. reflexivity. Qed.

(* the forall-quantified forms used in Props/Units.v *)
Lemma flat_history_proof : forall gi h,
  flat gi ->
  option_map (fun s0 => (s0, g_trace gi s0 h)) (g_new_solution gi)
  = option_map (fun s0 => (s0, c_trace (gi_inp gi) s0 h)) (new_solution (gi_inp gi)).
Proof. exact flat_history. Qed.

Lemma routes_ok_kept_proof : forall gi s,
  wf_input (gi_inp gi) -> routes_ok (gi_inp gi) s ->
  (forall mv, move_ok (gi_inp gi) s mv -> routes_ok (gi_inp gi) (fst (g_exec_move gi s mv))) /\
  (forall mv, move_ok (gi_inp gi) s mv -> routes_ok (gi_inp gi) (fst (g_exec_checked gi s mv))) /\
  (forall u, u < nunits (gi_inp gi) -> routes_ok (gi_inp gi) (fst (g_unplan_unit gi s u))) /\
  (forall id, routes_ok (gi_inp gi) (fst (g_unplan_group gi s id))) /\
  (forall id subs, subs_fresh gi (move_to_planned s id) subs ->
                   routes_ok (gi_inp gi) (fst (g_exec_units gi s id subs))).
Proof.
  intros gi s Hwf Hok. split; [|split; [|split; [|split]]].
  - intros mv Hmv. destruct (g_exec_move gi s mv) as [s' r] eqn:E.
    exact (proj1 (proj2 (g_exec_move_routes gi s s' mv r Hwf Hok Hmv E))).
  - intros mv Hmv. unfold g_exec_checked. destruct (g_move_executable gi s mv); [|exact Hok].
    destruct (g_exec_move gi s mv) as [s' r] eqn:E.
    exact (proj1 (proj2 (g_exec_move_routes gi s s' mv r Hwf Hok Hmv E))).
  - intros u Hu. destruct (g_unplan_unit gi s u) as [s' r] eqn:E.
    exact (proj1 (proj2 (g_unplan_unit_routes gi s s' u r Hwf Hok Hu E))).
  - intros id. destruct (g_unplan_group gi s id) as [s' r] eqn:E.
    exact (g_unplan_group_routes_ok gi s s' id r Hwf Hok E).
  - intros id subs Hfr. destruct (g_exec_units gi s id subs) as [s' r] eqn:E.
    exact (proj1 (proj2 (g_exec_units_routes_all_or_nothing_proof gi s id subs s' r Hwf Hok Hfr E))).
Qed.

Lemma routes_ok_start_proof : forall gi s,
  wf_input (gi_inp gi) -> Forall (fun l => l = []) (gi_initial gi) ->
  g_new_solution gi = Some s -> routes_ok (gi_inp gi) s.
Proof. exact g_new_solution_routes_ok. Qed.
