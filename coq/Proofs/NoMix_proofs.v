(* Proofs for Props/NoMix.v (the no-mix constraint, Model/NoMix.v). *)

From Coq Require Import List ZArith Bool Arith Lia ZifyBool.
Import ListNotations.
From NR.Model Require Import NoMix.
Open Scope Z_scope.

(* ===================================================================== *)
(* 1. witnesses                                                           *)
(* ===================================================================== *)

Lemma nm_estimate_sound_nonvacuous :
  let o := [Ins 1 2; Rem 1 1; Rem 1 1; NoItem] in
  let pl := [(NoItem, 0%nat); (Ins 1 1, 1%nat); (Rem 1 1, 3%nat)] in
  exists ds, nm_run nd_first o = Some ds /\
    items_positive o = true /\ items_positive (map fst pl) = true /\ items_named (map fst pl) = true /\
    unit_balanced (map fst pl) = true /\ places_ok (length o) 0 pl = true /\
    nm_estimate_places true true (nd_first :: ds) pl = false.
Proof.
  cbv zeta. eexists. split; [vm_compute; reflexivity|].
  repeat split; vm_compute; reflexivity.
Qed.

Lemma nm_first_stop_only_refuted : exists o ds pl,
  nm_run nd_first o = Some ds /\
  items_positive o = true /\ items_positive (map fst pl) = true /\
  items_named o = true /\ items_named (map fst pl) = true /\
  unit_balanced (map fst pl) = true /\ unit_one_name None (map fst pl) = true /\
  places_ok (length o) 0 pl = true /\
  nm_estimate_places false true (nd_first :: ds) pl = false /\
  nm_run nd_first (nm_merge o pl) = None.
Proof.
  exists [Ins 2 1; Rem 2 1; NoItem].
  eexists.
  exists [(NoItem, 0%nat); (Ins 1 1, 1%nat); (Rem 1 1, 1%nat)].
  split; [vm_compute; reflexivity|].
  repeat split; vm_compute; reflexivity.
Qed.

Lemma nm_base_quantity_refuted : exists o ds pl,
  nm_run nd_first o = Some ds /\
  items_positive o = true /\ items_positive (map fst pl) = true /\
  items_named o = true /\ items_named (map fst pl) = true /\
  unit_balanced (map fst pl) = true /\ unit_one_name None (map fst pl) = true /\
  places_ok (length o) 0 pl = true /\
  nm_estimate_places true false (nd_first :: ds) pl = false /\
  nm_run nd_first (nm_merge o pl) = None.
Proof.
  exists [Ins 1 1; Rem 1 1; NoItem].
  eexists.
  exists [(Ins 1 1, 1%nat); (Rem 1 2, 1%nat); (Ins 1 1, 2%nat)].
  split; [vm_compute; reflexivity|].
  repeat split; vm_compute; reflexivity.
Qed.

Lemma nm_zero_quantity_refuted : exists o ds pl,
  nm_run nd_first o = Some ds /\
  items_positive (map fst pl) = true /\
  items_named o = true /\ items_named (map fst pl) = true /\
  unit_balanced (map fst pl) = true /\ unit_one_name None (map fst pl) = true /\
  places_ok (length o) 0 pl = true /\
  nm_estimate_places true true (nd_first :: ds) pl = false /\
  nm_run nd_first (nm_merge o pl) = None.
Proof.
  exists [Ins 1 1; Rem 1 1; Rem 1 0; NoItem].
  eexists.
  exists [(NoItem, 2%nat)].
  split; [vm_compute; reflexivity|].
  repeat split; vm_compute; reflexivity.
Qed.

Lemma nm_empty_name_refuted : exists o ds pl,
  nm_run nd_first o = Some ds /\
  items_positive o = true /\ items_positive (map fst pl) = true /\
  items_named o = true /\
  unit_balanced (map fst pl) = true /\ unit_one_name None (map fst pl) = true /\
  places_ok (length o) 0 pl = true /\
  nm_estimate_places true true (nd_first :: ds) pl = false /\
  nm_run nd_first (nm_merge o pl) = None.
Proof.
  exists [Ins 5 1; Rem 5 1; NoItem; NoItem].
  eexists.
  exists [(Ins 0 1, 0%nat); (Rem 0 1, 3%nat)].
  split; [vm_compute; reflexivity|].
  repeat split; vm_compute; reflexivity.
Qed.

Lemma nm_history_nonvacuous :
  let inp := mkNMInput [Ins 1 2; Rem 1 1; Rem 1 1; NoItem; Ins 1 1; Rem 1 1; Ins 2 1; Rem 2 1]
                       [[0; 1; 2]; [3; 4; 5]; [6; 7]]%nat in
  nm_input_ok inp = true /\
  map fst (nm_history inp [] [NPlan 0 [0; 0; 0]; NPlan 1 [0; 1; 2]; NPlan 2 [1; 1]; NPlan 2 [4; 6];
                              NUnplan 0; NPlan 0 [0; 3; 3]]%nat)
  = [OPlan true NMDone; OPlan true NMDone; OPlan true NMDone; OSkip; OUnplan NMDone; OPlan false NMNotDone].
Proof.
  cbv zeta. split; vm_compute; reflexivity.
Qed.

(* ===================================================================== *)
(* 2. the exact rule in closed form                                       *)
(* ===================================================================== *)

Definition total (its : list item) : Z := fold_right Z.add 0 (map item_delta its).

Lemma nm_update_q : forall p it d, nm_update p it = Some d -> nd_q d = nd_q p + item_delta it.
Proof.
  intros p it d H. destruct it as [|n q|n q]; cbn [nm_update] in H.
  - inversion H; subst; cbn. lia.
  - destruct (negb (Nat.eqb (nd_name p) n) && negb (nd_q p =? 0)); [discriminate|].
    inversion H; subst; cbn. lia.
  - destruct (negb (Nat.eqb (nd_name p) n) || (nd_q p <? q)); [discriminate|].
    inversion H; subst; cbn. lia.
Qed.

Lemma nm_run_quantity_gen : forall its p ds k d,
  nm_run p its = Some ds ->
  nth_error ds k = Some d ->
  nd_q d = nd_q p + total (firstn (S k) its).
Proof.
  induction its as [|it r IH]; intros p ds k d Hrun Hnth.
  - cbn in Hrun. inversion Hrun; subst. destruct k; discriminate.
  - cbn [nm_run] in Hrun.
    destruct (nm_update p it) as [d1|] eqn:Hu; [|discriminate].
    destruct (nm_run d1 r) as [ds1|] eqn:Hr; [|discriminate].
    inversion Hrun; subst ds. clear Hrun.
    pose proof (nm_update_q _ _ _ Hu) as Hq.
    destruct k as [|k].
    + cbn in Hnth. inversion Hnth; subst d. unfold total. cbn. lia.
    + cbn [nth_error] in Hnth.
      specialize (IH _ _ _ _ Hr Hnth).
      change (firstn (S (S k)) (it :: r)) with (it :: firstn (S k) r).
      unfold total in *. cbn [map fold_right]. lia.
Qed.

Lemma nm_run_quantity : forall its ds k d,
  nm_run nd_first its = Some ds ->
  nth_error ds k = Some d ->
  nd_q d = fold_right Z.add 0 (map item_delta (firstn (S k) its)).
Proof.
  intros its ds k d Hrun Hnth.
  pose proof (nm_run_quantity_gen _ _ _ _ _ Hrun Hnth) as H.
  unfold total in H. cbn in H. exact H.
Qed.

(* the contribution of one item to the sum of content [n] *)
Definition item_sum (n : nat) (it : item) : Z :=
  match item_name it with
  | Some m => if Nat.eqb m n then item_delta it else 0
  | None => 0
  end.

Lemma name_sum_nil : forall n, name_sum n [] = 0.
Proof. reflexivity. Qed.

Lemma name_sum_cons : forall n it r, name_sum n (it :: r) = item_sum n it + name_sum n r.
Proof. reflexivity. Qed.

(* what a datum says is on board of content [n] *)
Definition board (d : ndata) (n : nat) : Z := if Nat.eqb n (nd_name d) then nd_q d else 0.

Definition item_pos (it : item) : bool :=
  match it with NoItem => true | Ins _ q => 0 <? q | Rem _ q => 0 <? q end.

Lemma items_positive_cons : forall it r,
  items_positive (it :: r) = item_pos it && items_positive r.
Proof. reflexivity. Qed.

Lemma nm_update_board : forall p it d,
  nm_update p it = Some d ->
  forall n, board d n = board p n + item_sum n it.
Proof.
  intros p it d H n. unfold board, item_sum.
  destruct it as [|m q|m q]; cbn [nm_update item_name item_delta] in *.
  - inversion H; subst; cbn.
    destruct (Z.eqb_spec (nd_q p) 0) as [E|E].
    + rewrite E. destruct (Nat.eqb n 0), (Nat.eqb n (nd_name p)); lia.
    + lia.
  - destruct (Nat.eqb_spec (nd_name p) m) as [E|E];
    destruct (Z.eqb_spec (nd_q p) 0) as [E0|E0]; cbn in H; try discriminate;
    injection H as <-; cbn;
    destruct (Nat.eqb_spec n m), (Nat.eqb_spec m n), (Nat.eqb_spec n (nd_name p)); try lia; congruence.
  - destruct (Nat.eqb_spec (nd_name p) m) as [E|E]; cbn in H; try discriminate.
    destruct (Z.ltb_spec (nd_q p) q); try discriminate.
    injection H as <-; cbn.
    destruct (Nat.eqb_spec n (nd_name p)), (Nat.eqb_spec m n); try lia; congruence.
Qed.

Lemma nm_update_q_nonneg : forall p it d,
  item_pos it = true -> 0 <= nd_q p -> nm_update p it = Some d -> 0 <= nd_q d.
Proof.
  intros p it d Hp Hq H.
  destruct it as [|m q|m q]; cbn [nm_update item_pos] in *.
  - inversion H; subst; cbn. lia.
  - destruct (negb (Nat.eqb (nd_name p) m) && negb (nd_q p =? 0)); [discriminate|].
    inversion H; subst; cbn. lia.
  - destruct (Nat.eqb_spec (nd_name p) m) as [E|E]; cbn in H; try discriminate.
    destruct (Z.ltb_spec (nd_q p) q); try discriminate.
    inversion H; subst; cbn. lia.
Qed.

(* the closed-form condition for one prefix, relative to what is on board *)
Definition pref_ok (d : ndata) (its : list item) : Prop :=
  (forall n, 0 <= board d n + name_sum n its) /\
  (forall n m, 0 < board d n + name_sum n its -> 0 < board d m + name_sum m its -> n = m).

Lemma nm_update_none_bad : forall p it,
  item_pos it = true -> 0 <= nd_q p -> nm_update p it = None -> ~ pref_ok p [it].
Proof.
  intros p it Hp Hq H [Hnn Hone].
  destruct it as [|m q|m q]; cbn [nm_update item_pos] in *.
  - discriminate.
  - destruct (Nat.eqb_spec (nd_name p) m) as [E|E];
    destruct (Z.eqb_spec (nd_q p) 0) as [E0|E0]; cbn in H; try discriminate.
    specialize (Hone (nd_name p) m).
    unfold board in Hone. rewrite !name_sum_cons, !name_sum_nil in Hone.
    unfold item_sum in Hone. cbn [item_name item_delta] in Hone.
    rewrite !Nat.eqb_refl in Hone.
    destruct (Nat.eqb_spec m (nd_name p)); [congruence|].
    apply E. apply Hone; lia.
  - specialize (Hnn m). unfold board in Hnn.
    rewrite name_sum_cons, name_sum_nil in Hnn. unfold item_sum in Hnn.
    cbn [item_name item_delta] in Hnn. rewrite Nat.eqb_refl in Hnn.
    destruct (Nat.eqb_spec (nd_name p) m) as [E|E]; cbn in H.
    + destruct (Z.ltb_spec (nd_q p) q); try discriminate.
      destruct (Nat.eqb_spec m (nd_name p)); [|congruence]. lia.
    + destruct (Nat.eqb_spec m (nd_name p)); [congruence|]. lia.
Qed.

Lemma pref_ok_shift : forall p it d its,
  (forall n, board d n = board p n + item_sum n it) ->
  (pref_ok d its <-> pref_ok p (it :: its)).
Proof.
  intros p it d its Hb. unfold pref_ok.
  split; intros [H1 H2]; split; intros.
  - rewrite name_sum_cons. specialize (H1 n). rewrite Hb in H1. lia.
  - rewrite name_sum_cons in *. apply H2; rewrite Hb; lia.
  - specialize (H1 n). rewrite name_sum_cons in H1. rewrite Hb. lia.
  - apply H2; rewrite name_sum_cons; rewrite Hb in *; lia.
Qed.

Lemma nm_run_spec_gen : forall its p,
  items_positive its = true -> 0 <= nd_q p ->
  ((exists ds, nm_run p its = Some ds) <->
   (forall k, (k <= length its)%nat -> pref_ok p (firstn k its))).
Proof.
  induction its as [|it r IH]; intros p Hpos Hq.
  - split.
    + intros _ k Hk. cbn in Hk. assert (k = 0)%nat by lia. subst. cbn.
      unfold pref_ok. cbn [name_sum map fold_right]. unfold board.
      split; intros n; [destruct (Nat.eqb n (nd_name p)); lia|].
      intros m. destruct (Nat.eqb_spec n (nd_name p)), (Nat.eqb_spec m (nd_name p)); lia.
    + intros _. eexists. reflexivity.
  - rewrite items_positive_cons in Hpos. apply andb_prop in Hpos. destruct Hpos as [Hp Hpos].
    cbn [nm_run]. destruct (nm_update p it) as [d|] eqn:Hu.
    + pose proof (nm_update_board _ _ _ Hu) as Hb.
      pose proof (nm_update_q_nonneg _ _ _ Hp Hq Hu) as Hqd.
      specialize (IH d Hpos Hqd).
      split.
      * intros [ds Hds].
        assert (Hex : exists ds, nm_run d r = Some ds).
        { destruct (nm_run d r) as [ds1|]; [eexists; reflexivity|discriminate]. }
        pose proof (proj1 IH Hex) as Hall.
        intros k Hk. destruct k as [|k].
        -- cbn [firstn]. unfold pref_ok. cbn [name_sum map fold_right]. unfold board.
           split; intros n; [destruct (Nat.eqb n (nd_name p)); lia|].
           intros m. destruct (Nat.eqb_spec n (nd_name p)), (Nat.eqb_spec m (nd_name p)); lia.
        -- cbn [firstn]. apply (pref_ok_shift _ _ _ _ Hb). apply Hall. cbn in Hk. lia.
      * intros Hall.
        assert (Hr : exists ds, nm_run d r = Some ds).
        { apply IH. intros k Hk. apply (pref_ok_shift _ _ _ _ Hb).
          apply (Hall (S k)). cbn. lia. }
        destruct Hr as [ds1 Hr]. rewrite Hr. eexists. reflexivity.
    + split.
      * intros [ds Hds]. discriminate.
      * intros Hall. exfalso.
        apply (nm_update_none_bad _ _ Hp Hq Hu).
        apply (Hall 1%nat). cbn. lia.
Qed.

Lemma nm_run_spec : forall its,
  items_positive its = true ->
  ((exists ds, nm_run nd_first its = Some ds) <->
   (forall k, (k <= length its)%nat ->
      (forall n, 0 <= name_sum n (firstn k its)) /\
      (forall n m, 0 < name_sum n (firstn k its) -> 0 < name_sum m (firstn k its) -> n = m))).
Proof.
  intros its Hpos.
  assert (Hq : 0 <= nd_q nd_first) by (cbn; lia).
  rewrite (nm_run_spec_gen its nd_first Hpos Hq).
  assert (Hb : forall n, board nd_first n = 0).
  { intros n. unfold board. cbn. destruct (Nat.eqb n 0); reflexivity. }
  unfold pref_ok.
  split; intros H k Hk; specialize (H k Hk); destruct H as [H1 H2]; split; intros.
  - specialize (H1 n). rewrite Hb in H1. lia.
  - apply H2; rewrite Hb; lia.
  - rewrite Hb. specialize (H1 n). lia.
  - rewrite !Hb in *. apply H2; lia.
Qed.

(* ===================================================================== *)
(* 3. the estimate is sound                                               *)
(* ===================================================================== *)

Lemma board_nonneg : forall d n, 0 <= nd_q d -> 0 <= board d n.
Proof. intros d n H. unfold board. destruct (Nat.eqb n (nd_name d)); lia. Qed.

Lemma board_name : forall d n, board d n <> 0 -> n = nd_name d.
Proof.
  intros d n H. unfold board in H. destruct (Nat.eqb_spec n (nd_name d)); [assumption|lia].
Qed.

Lemma items_positive_app : forall a b,
  items_positive (a ++ b) = items_positive a && items_positive b.
Proof. intros. unfold items_positive. apply forallb_app. Qed.

Lemma name_sum_single : forall n it, name_sum n [it] = item_sum n it.
Proof. intros. rewrite name_sum_cons, name_sum_nil. lia. Qed.

(* an update goes through as soon as the closed-form condition holds *)
Lemma nm_update_some : forall p it,
  item_pos it = true -> 0 <= nd_q p ->
  (forall n, 0 <= board p n + item_sum n it) ->
  (forall n m, 0 < board p n + item_sum n it -> 0 < board p m + item_sum m it -> n = m) ->
  exists d, nm_update p it = Some d.
Proof.
  intros p it Hp Hq H1 H2.
  destruct (nm_update p it) as [d|] eqn:Hu; [eexists; reflexivity|].
  exfalso. apply (nm_update_none_bad _ _ Hp Hq Hu).
  split; intros; rewrite ?name_sum_single in *; auto.
Qed.

(* the success of a run depends on what is on board only *)
Lemma run_board_eq : forall r dn d0 dsr,
  items_positive r = true -> 0 <= nd_q dn -> 0 <= nd_q d0 ->
  (forall m, board dn m = board d0 m) ->
  nm_run d0 r = Some dsr ->
  exists ds2, nm_run dn r = Some ds2.
Proof.
  intros r dn d0 dsr Hpos Hqn Hqo Hb Hrun.
  apply (nm_run_spec_gen r dn Hpos Hqn).
  assert (Hex : exists ds, nm_run d0 r = Some ds) by (eexists; exact Hrun).
  pose proof (proj1 (nm_run_spec_gen r d0 Hpos Hqo) Hex) as Hall.
  intros k Hk. specialize (Hall k Hk). unfold pref_ok in *.
  destruct Hall as [H1 H2]. split; intros.
  - rewrite Hb. apply H1.
  - apply H2; rewrite <- Hb; assumption.
Qed.

(* the new route takes the step of the old one: [delta] of content [c] more on board *)
Lemma step_new : forall d_old d1 d_new x c delta,
  nm_update d_old x = Some d1 ->
  item_pos x = true ->
  0 <= nd_q d_old -> 0 <= nd_q d_new -> 0 <= delta ->
  (forall m, board d_new m = board d_old m + (if Nat.eqb m c then delta else 0)) ->
  (delta = 0 \/ forall m, m <> c -> board d1 m = 0) ->
  exists dn1, nm_update d_new x = Some dn1 /\ 0 <= nd_q dn1 /\
    forall m, board dn1 m = board d1 m + (if Nat.eqb m c then delta else 0).
Proof.
  intros d_old d1 d_new x c delta Hu Hp Hqo Hqn Hd HB HJ.
  pose proof (nm_update_board _ _ _ Hu) as Hb1.
  pose proof (nm_update_q_nonneg _ _ _ Hp Hqo Hu) as Hq1.
  assert (Hv : forall m, board d_new m + item_sum m x = board d1 m + (if Nat.eqb m c then delta else 0)).
  { intros m. rewrite HB, Hb1. lia. }
  destruct (nm_update_some d_new x Hp Hqn) as [dn1 Hun].
  - intros n. rewrite Hv. pose proof (board_nonneg d1 n Hq1). destruct (Nat.eqb n c); lia.
  - intros n m. rewrite !Hv. intros Hn Hm.
    destruct HJ as [H0|HJ].
    + subst delta.
      assert (n = nd_name d1) by (apply board_name; destruct (Nat.eqb n c); lia).
      assert (m = nd_name d1) by (apply board_name; destruct (Nat.eqb m c); lia).
      congruence.
    + destruct (Nat.eqb_spec n c) as [En|En]; destruct (Nat.eqb_spec m c) as [Em|Em]; try congruence.
      * rewrite (HJ m Em) in Hm. lia.
      * rewrite (HJ n En) in Hn. lia.
      * rewrite (HJ n En) in Hn. lia.
  - exists dn1. split; [exact Hun|]. split.
    + apply (nm_update_q_nonneg _ _ _ Hp Hqn Hun).
    + intros m. rewrite (nm_update_board _ _ _ Hun m). apply Hv.
Qed.

(* ---- tours ---------------------------------------------------------- *)

Lemma nm_update_tour_mono : forall p it d, nm_update p it = Some d -> nd_tour p <= nd_tour d.
Proof.
  intros p it d H. destruct it as [|n q|n q]; cbn [nm_update] in H.
  - injection H as <-; cbn. lia.
  - destruct (negb (Nat.eqb (nd_name p) n) && negb (nd_q p =? 0)); [discriminate|].
    injection H as <-; cbn. destruct (nd_q p =? 0); lia.
  - destruct (negb (Nat.eqb (nd_name p) n) || (nd_q p <? q)); [discriminate|].
    injection H as <-; cbn. lia.
Qed.

Lemma run_tour_mono : forall r d ds D,
  nm_run d r = Some ds -> In D ds -> nd_tour d <= nd_tour D.
Proof.
  induction r as [|x r IH]; intros d ds D Hrun Hin.
  - cbn in Hrun. injection Hrun as <-. destruct Hin.
  - cbn [nm_run] in Hrun.
    destruct (nm_update d x) as [d1|] eqn:Hu; [|discriminate].
    destruct (nm_run d1 r) as [ds1|] eqn:Hr; [|discriminate].
    injection Hrun as <-.
    pose proof (nm_update_tour_mono _ _ _ Hu).
    destruct Hin as [<-|Hin]; [assumption|].
    specialize (IH _ _ _ Hr Hin). lia.
Qed.

Lemma nm_update_same_tour_name : forall p it d,
  nm_update p it = Some d -> nd_tour d = nd_tour p ->
  nd_name d = nd_name p \/ nd_name d = 0%nat.
Proof.
  intros p it d H Ht. destruct it as [|n q|n q]; cbn [nm_update] in H.
  - injection H as <-; cbn. destruct (nd_q p =? 0); auto.
  - destruct (Nat.eqb_spec (nd_name p) n) as [E|E];
    destruct (Z.eqb_spec (nd_q p) 0) as [E0|E0]; cbn in H; try discriminate;
    injection H as <-; cbn in *; try lia; auto.
  - destruct (negb (Nat.eqb (nd_name p) n) || (nd_q p <? q)); [discriminate|].
    injection H as <-; cbn. auto.
Qed.

Lemma run_same_tour_name : forall r d ds D,
  nm_run d r = Some ds -> In D ds -> nd_tour D = nd_tour d ->
  nd_name D = nd_name d \/ nd_name D = 0%nat.
Proof.
  induction r as [|x r IH]; intros d ds D Hrun Hin Ht.
  - cbn in Hrun. injection Hrun as <-. destruct Hin.
  - cbn [nm_run] in Hrun.
    destruct (nm_update d x) as [d1|] eqn:Hu; [|discriminate].
    destruct (nm_run d1 r) as [ds1|] eqn:Hr; [|discriminate].
    injection Hrun as <-.
    pose proof (nm_update_tour_mono _ _ _ Hu) as Hm.
    destruct Hin as [<-|Hin].
    + apply (nm_update_same_tour_name _ _ _ Hu Ht).
    + pose proof (run_tour_mono _ _ _ _ Hr Hin) as Hm2.
      assert (Ht1 : nd_tour d1 = nd_tour d) by lia.
      destruct (IH _ _ _ Hr Hin ltac:(lia)) as [E|E]; [|auto].
      destruct (nm_update_same_tour_name _ _ _ Hu Ht1) as [E1|E1]; [left|right]; congruence.
Qed.

(* the old route keeps "nothing but content [c] on board" as long as a later
   old stop with tour number [tour] carries the name [c] *)
Lemma old_step_keeps : forall d_old x d1 rest dsr1 D c tour,
  nm_update d_old x = Some d1 ->
  nm_run d1 rest = Some dsr1 ->
  item_pos x = true -> 0 <= nd_q d_old ->
  In D (d1 :: dsr1) -> nd_tour D = tour -> nd_name D = c -> c <> 0%nat ->
  tour - 1 <= nd_tour d_old ->
  (forall m, m <> c -> board d_old m = 0) ->
  forall m, m <> c -> board d1 m = 0.
Proof.
  intros d_old x d1 rest dsr1 D c tour Hu Hr Hp Hqo HD HDt HDn Hc HT HJ m Hm.
  pose proof (nm_update_board _ _ _ Hu m) as Hb.
  pose proof (nm_update_q_nonneg _ _ _ Hp Hqo Hu) as Hq1.
  pose proof (board_nonneg d1 m Hq1) as Hnn.
  rewrite (HJ m Hm) in Hb.
  destruct x as [|n q|n q]; unfold item_sum in Hb; cbn [item_name item_delta item_pos] in *.
  - lia.
  - destruct (Nat.eqb_spec n m) as [E|E]; [|lia]. subst n. exfalso.
    (* an Ins of another content: the old route was empty, a new tour starts *)
    cbn [nm_update] in Hu.
    assert (Hq0 : nd_q d_old = 0).
    { destruct (Nat.eqb_spec (nd_name d_old) m) as [E|E];
      destruct (Z.eqb_spec (nd_q d_old) 0) as [E0|E0]; cbn in Hu; try discriminate; try assumption.
      specialize (HJ m Hm). unfold board in HJ. rewrite <- E, Nat.eqb_refl in HJ. lia. }
    rewrite Hq0 in Hu. rewrite andb_false_r in Hu. cbn in Hu.
    injection Hu as Hd1.
    assert (Ht1 : nd_tour d1 = nd_tour d_old + 1) by (rewrite <- Hd1; reflexivity).
    assert (Hn1 : nd_name d1 = m) by (rewrite <- Hd1; reflexivity).
    destruct HD as [<-|HD].
    + congruence.
    + pose proof (run_tour_mono _ _ _ _ Hr HD) as Hmono.
      destruct (run_same_tour_name _ _ _ _ Hr HD ltac:(lia)) as [E|E]; congruence.
  - destruct (Nat.eqb_spec n m) as [E|E]; lia.
Qed.

(* ---- placing items ---------------------------------------------------- *)

Lemma places_ok_weaken : forall n pl lo lo',
  (lo' <= lo)%nat -> places_ok n lo pl = true -> places_ok n lo' pl = true.
Proof.
  intros n pl lo lo' Hle H. destruct pl as [|[it g] r]; [reflexivity|].
  cbn [places_ok] in *. apply andb_prop in H. destruct H as [H H3].
  apply andb_prop in H. destruct H as [H1 H2].
  rewrite H2, H3. apply Nat.leb_le in H1.
  replace (Nat.leb lo' g) with true; [reflexivity|]. symmetry. apply Nat.leb_le. lia.
Qed.

Lemma places_ok_ge : forall n pl lo, places_ok n lo pl = true ->
  forall p, In p pl -> (lo <= snd p)%nat.
Proof.
  intros n pl. induction pl as [|[it g] r IH]; intros lo H p Hin; [destruct Hin|].
  cbn [places_ok] in H. apply andb_prop in H. destruct H as [H H3].
  apply andb_prop in H. destruct H as [H1 H2]. apply Nat.leb_le in H1.
  destruct Hin as [<-|Hin]; [cbn; lia|].
  specialize (IH _ H3 _ Hin). lia.
Qed.

Lemma insert_at_nil : forall A (r : list A) pos, insert_at pos r [] = r.
Proof.
  intros A r. induction r as [|x r IH]; intros pos; [reflexivity|].
  cbn. rewrite IH. reflexivity.
Qed.

Lemma insert_at_here : forall A pos (x : A) rest it pl,
  insert_at pos (x :: rest) ((it, pos) :: pl) = it :: insert_at pos (x :: rest) pl.
Proof.
  intros. cbn [insert_at filter snd]. rewrite Nat.eqb_refl. cbn [negb map fst app]. reflexivity.
Qed.

Lemma insert_at_later : forall A pos (x : A) rest pl,
  (forall p, In p pl -> (S pos <= snd p)%nat) ->
  insert_at pos (x :: rest) pl = x :: insert_at (S pos) rest pl.
Proof.
  intros A pos x rest pl H. cbn [insert_at].
  assert (H1 : filter (fun p : A * nat => Nat.eqb (snd p) pos) pl = []).
  { induction pl as [|p pl IH]; [reflexivity|]. cbn [filter].
    destruct (Nat.eqb_spec (snd p) pos) as [E|E].
    - specialize (H p (or_introl eq_refl)). lia.
    - apply IH. intros q Hq. apply H. right. exact Hq. }
  assert (H2 : filter (fun p : A * nat => negb (Nat.eqb (snd p) pos)) pl = pl).
  { clear H1. induction pl as [|p pl IH]; [reflexivity|]. cbn [filter].
    destruct (Nat.eqb_spec (snd p) pos) as [E|E].
    - specialize (H p (or_introl eq_refl)). lia.
    - cbn [negb]. f_equal. apply IH. intros q Hq. apply H. right. exact Hq. }
  rewrite H1, H2. reflexivity.
Qed.

(* induction along the walk of insert_at over a route and sorted places *)
Lemma places_ind : forall (P : nat -> list item -> list place -> Prop),
  (forall pos, P pos [] []) ->
  (forall pos x rest it pl,
     places_ok (pos + length (x :: rest)) pos pl = true ->
     P pos (x :: rest) pl -> P pos (x :: rest) ((it, pos) :: pl)) ->
  (forall pos x rest pl,
     places_ok (S pos + length rest) (S pos) pl = true ->
     P (S pos) rest pl -> P pos (x :: rest) pl) ->
  forall r pos pl, places_ok (pos + length r) pos pl = true -> P pos r pl.
Proof.
  intros P Hnil Hhere Hlater.
  induction r as [|x rest IHr]; intros pos pl Hok.
  - destruct pl as [|[it g] pl]; [apply Hnil|].
    cbn [places_ok length] in Hok. exfalso.
    apply andb_prop in Hok. destruct Hok as [Hok _].
    apply andb_prop in Hok. destruct Hok as [H1 H2].
    apply Nat.leb_le in H1. apply Nat.ltb_lt in H2. lia.
  - induction pl as [|[it g] pl IHpl].
    + apply Hlater; [reflexivity|]. apply IHr. reflexivity.
    + pose proof Hok as Hok'.
      cbn [places_ok] in Hok. apply andb_prop in Hok. destruct Hok as [Hok H3].
      apply andb_prop in Hok. destruct Hok as [H1 H2].
      apply Nat.leb_le in H1.
      destruct (Nat.eq_dec g pos) as [E|E].
      * subst g. apply Hhere; [exact H3|]. apply IHpl. exact H3.
      * assert (Hok2 : places_ok (S pos + length rest) (S pos) ((it, g) :: pl) = true).
        { cbn [places_ok]. cbn [length] in H2, H3.
          replace (S pos + length rest)%nat with (pos + S (length rest))%nat by lia.
          rewrite H2, H3.
          replace (Nat.leb (S pos) g) with true; [reflexivity|].
          symmetry. apply Nat.leb_le. lia. }
        apply Hlater; [exact Hok2|]. apply IHr. exact Hok2.
Qed.

(* ---- the loop of the estimate ----------------------------------------- *)

Lemma nm_rest_step : forall base tour c delta it p ms,
  item_pos it = true ->
  nm_rest true base tour c delta ((it, p) :: ms) = false ->
  (forall m, item_sum m it = if Nat.eqb m c then item_delta it else 0) /\
  (0 <= delta -> 0 <= delta + item_delta it) /\
  nm_rest true base tour c (delta + item_delta it) ms = false /\
  (forall d, p = Some d -> nd_tour d = tour /\ nd_name d = c).
Proof.
  intros base tour c delta it p ms Hp H.
  cbn [nm_rest] in H.
  assert (Hprev : forall d, p = Some d -> nd_tour d = tour /\ nd_name d = c).
  { intros d ->.
    destruct (Z.eqb_spec (nd_tour d) tour), (Nat.eqb_spec (nd_name d) c); cbn in H; try discriminate.
    split; assumption. }
  assert (Hbad : (match p with
                  | Some d => negb (nd_tour d =? tour) || negb (Nat.eqb (nd_name d) c)
                  | None => false end) = false).
  { destruct p as [d|]; [|reflexivity].
    destruct (negb (nd_tour d =? tour) || negb (Nat.eqb (nd_name d) c)); [discriminate|reflexivity]. }
  rewrite Hbad in H.
  destruct it as [|n q|n q]; cbn [item_pos item_delta has_item] in *; unfold item_sum; cbn [item_name item_delta].
  - split; [|split; [|split]].
    + intros m. destruct (Nat.eqb m c); reflexivity.
    + lia.
    + replace (delta + 0) with delta by lia. exact H.
    + exact Hprev.
  - destruct (Nat.eqb_spec c n) as [E|E]; cbn in H; [|discriminate]. subst n.
    split; [|split; [|split]].
    + intros m. rewrite (Nat.eqb_sym c m). reflexivity.
    + lia.
    + exact H.
    + exact Hprev.
  - destruct (Nat.eqb_spec c n) as [E|E]; cbn in H; [|discriminate]. subst n.
    destruct (Z.ltb_spec delta q); [discriminate|].
    split; [|split; [|split]].
    + intros m. rewrite (Nat.eqb_sym c m). reflexivity.
    + lia.
    + replace (delta + - q) with (delta - q) by lia. exact H.
    + exact Hprev.
Qed.

Lemma run_cons : forall p it d l,
  nm_update p it = Some d -> (exists ds, nm_run d l = Some ds) ->
  exists ds2, nm_run p (it :: l) = Some ds2.
Proof.
  intros p it d l Hu [ds Hr]. cbn [nm_run]. rewrite Hu, Hr. eexists. reflexivity.
Qed.

Lemma run_cons_inv : forall p it l ds,
  nm_run p (it :: l) = Some ds ->
  exists d ds1, nm_update p it = Some d /\ nm_run d l = Some ds1 /\ ds = d :: ds1.
Proof.
  intros p it l ds H. cbn [nm_run] in H.
  destruct (nm_update p it) as [d|] eqn:Hu; [|discriminate].
  destruct (nm_run d l) as [ds1|] eqn:Hr; [|discriminate].
  injection H as <-. exists d, ds1. auto.
Qed.

Lemma run_length : forall r d ds, nm_run d r = Some ds -> length ds = length r.
Proof.
  induction r as [|x r IH]; intros d ds H.
  - cbn in H. injection H as <-. reflexivity.
  - apply run_cons_inv in H. destruct H as (d1 & ds1 & _ & Hr & ->).
    cbn. f_equal. apply (IH _ _ Hr).
Qed.

Lemma items_positive_place_cons : forall it g (pl : list place),
  items_positive (map fst ((it, g) :: pl)) = true ->
  item_pos it = true /\ items_positive (map fst pl) = true.
Proof.
  intros it g pl H. cbn [map fst] in H. rewrite items_positive_cons in H.
  apply andb_prop in H. exact H.
Qed.

Lemma total_place_cons : forall it g (pl : list place),
  total (map fst ((it, g) :: pl)) = item_delta it + total (map fst pl).
Proof. reflexivity. Qed.

Lemma places_ok_head : forall n lo it g pl,
  places_ok n lo ((it, g) :: pl) = true -> (lo <= g)%nat /\ (g < n)%nat /\ places_ok n g pl = true.
Proof.
  intros n lo it g pl H. cbn [places_ok] in H.
  apply andb_prop in H. destruct H as [H H3].
  apply andb_prop in H. destruct H as [H1 H2].
  apply Nat.leb_le in H1. apply Nat.ltb_lt in H2. auto.
Qed.

Section Span.
Variable ds' : list ndata.
Variables (base tour : Z) (c : nat).
Hypothesis Hc : c <> 0%nat.

Definition P1 (pos : nat) (r : list item) (pl : list place) : Prop :=
  forall d_old dsr d_new delta gprev,
   nm_run d_old r = Some dsr ->
   items_positive r = true ->
   (forall k, (k <= length r)%nat -> nth (pos + k) ds' nd_first = nth k (d_old :: dsr) nd_first) ->
   places_ok (pos + length r) pos pl = true ->
   items_positive (map fst pl) = true ->
   (gprev <= pos)%nat ->
   nm_rest true base tour c delta (nm_mstops ds' (Some gprev) pl) = false ->
   delta + total (map fst pl) = 0 ->
   0 <= delta -> 0 <= nd_q d_old -> 0 <= nd_q d_new ->
   (forall m, board d_new m = board d_old m + (if Nat.eqb m c then delta else 0)) ->
   (forall m, m <> c -> board d_old m = 0) ->
   tour - 1 <= nd_tour d_old ->
   exists ds2, nm_run d_new (insert_at pos r pl) = Some ds2.

Lemma span_ok : forall r pos pl, places_ok (pos + length r) pos pl = true -> P1 pos r pl.
Proof.
  apply (places_ind P1).
  - intros pos. unfold P1. intros. cbn. eexists. reflexivity.
  - intros pos x rest it pl Hok IH. unfold P1.
    intros d_old dsr d_new delta gprev Hrun Hpos Hnth Hpl Hppos Hg Hrest Hbal Hd Hqo Hqn HB HJ HT.
    rewrite insert_at_here.
    apply items_positive_place_cons in Hppos. destruct Hppos as [Hpit Hppos].
    cbn [nm_mstops] in Hrest.
    apply (nm_rest_step _ _ _ _ _ _ _ Hpit) in Hrest.
    destruct Hrest as (Hsum & Hd' & Hrest & _).
    specialize (Hd' Hd).
    rewrite total_place_cons in Hbal.
    assert (Hv : forall m, board d_new m + item_sum m it
                           = board d_old m + (if Nat.eqb m c then delta + item_delta it else 0)).
    { intros m. rewrite HB, Hsum. destruct (Nat.eqb m c); lia. }
    destruct (nm_update_some d_new it Hpit Hqn) as [dn1 Hun].
    + intros n. rewrite Hv. pose proof (board_nonneg d_old n Hqo). destruct (Nat.eqb n c); lia.
    + intros n m. rewrite !Hv. intros Hn Hm.
      destruct (Nat.eqb_spec n c) as [En|En]; destruct (Nat.eqb_spec m c) as [Em|Em]; try congruence.
      * rewrite (HJ m Em) in Hm. lia.
      * rewrite (HJ n En) in Hn. lia.
      * rewrite (HJ n En) in Hn. lia.
    + apply (run_cons _ _ _ _ Hun).
      apply (IH d_old dsr dn1 (delta + item_delta it) pos); auto; try lia.
      * apply (nm_update_q_nonneg _ _ _ Hpit Hqn Hun).
      * intros m. rewrite (nm_update_board _ _ _ Hun m). apply Hv.
  - intros pos x rest pl Hok IH. unfold P1.
    intros d_old dsr d_new delta gprev Hrun Hpos Hnth Hpl Hppos Hg Hrest Hbal Hd Hqo Hqn HB HJ HT.
    destruct pl as [|[it' g] pl'].
    + rewrite insert_at_nil.
      assert (delta = 0) by (unfold total in Hbal; cbn in Hbal; lia). subst delta.
      apply (run_board_eq _ d_new d_old dsr Hpos Hqn Hqo); [|exact Hrun].
      intros m. rewrite HB. destruct (Nat.eqb m c); lia.
    + rewrite insert_at_later by (apply (places_ok_ge _ _ _ Hok)).
      apply run_cons_inv in Hrun. destruct Hrun as (d1 & dsr1 & Hu & Hr & ->).
      rewrite items_positive_cons in Hpos. apply andb_prop in Hpos. destruct Hpos as [Hpx Hpos].
      pose proof Hrest as Hrest0.
      apply places_ok_head in Hok. destruct Hok as (Hg1 & Hg2 & Hok3).
      pose proof (proj1 (items_positive_place_cons _ _ _ Hppos)) as Hpit'.
      cbn [nm_mstops] in Hrest.
      destruct (Nat.eqb_spec gprev g) as [E|_]; [lia|].
      apply (nm_rest_step _ _ _ _ _ _ _ Hpit') in Hrest.
      destruct Hrest as (_ & _ & _ & HD).
      specialize (HD _ eq_refl). destruct HD as [HDt HDn].
      pose proof (run_length _ _ _ Hr) as Hlen.
      assert (HDin : In (nth g ds' nd_first) (d1 :: dsr1)).
      { replace g with (pos + S (g - S pos))%nat at 1 by lia.
        rewrite Hnth by (cbn [length]; lia).
        change (nth (S (g - S pos)) (d_old :: d1 :: dsr1) nd_first)
          with (nth (g - S pos) (d1 :: dsr1) nd_first).
        apply nth_In. cbn [length]. lia. }
      pose proof (old_step_keeps _ _ _ _ _ _ _ _ Hu Hr Hpx Hqo HDin HDt HDn Hc HT HJ) as HJ1.
      destruct (step_new _ _ _ _ _ _ Hu Hpx Hqo Hqn Hd HB (or_intror HJ1)) as (dn1 & Hun & Hqn1 & HB1).
      apply (run_cons _ _ _ _ Hun).
      apply (IH d1 dsr1 dn1 delta gprev); auto; try lia.
      * intros k Hk. replace (S pos + k)%nat with (pos + S k)%nat by lia.
        rewrite Hnth by (cbn [length]; lia). reflexivity.
      * cbn [places_ok]. rewrite Hok3.
        replace (Nat.leb (S pos) g) with true by (symmetry; apply Nat.leb_le; lia).
        replace (Nat.ltb g (S pos + length rest)) with true by (symmetry; apply Nat.ltb_lt; lia).
        reflexivity.
      * apply (nm_update_q_nonneg _ _ _ Hpx Hqo Hu).
      * pose proof (nm_update_tour_mono _ _ _ Hu). lia.
Qed.

End Span.

Lemma step_new0 : forall d_old d1 d_new x,
  nm_update d_old x = Some d1 ->
  item_pos x = true ->
  0 <= nd_q d_old -> 0 <= nd_q d_new ->
  (forall m, board d_new m = board d_old m) ->
  exists dn1, nm_update d_new x = Some dn1 /\ 0 <= nd_q dn1 /\
    forall m, board dn1 m = board d1 m.
Proof.
  intros d_old d1 d_new x Hu Hp Hqo Hqn HB.
  destruct (step_new d_old d1 d_new x 0%nat 0 Hu Hp Hqo Hqn (Z.le_refl 0)) as (dn1 & H1 & H2 & H3).
  - intros m. rewrite HB. destruct (Nat.eqb m 0); lia.
  - left. reflexivity.
  - exists dn1. split; [exact H1|]. split; [exact H2|].
    intros m. rewrite H3. destruct (Nat.eqb m 0); lia.
Qed.

Definition finish (start : option (ndata * item * list mstop)) : bool :=
  match start with
  | None => false
  | Some (_, NoItem, _) => false
  | Some (_, Rem _ _, _) => true
  | Some (p, Ins n q, r) =>
      if negb (Nat.eqb (nd_name p) n) && negb (nd_q p =? 0) then true
      else nm_rest true (nd_q p)
                   (if nd_q p =? 0 then nd_tour p + 1 else nd_tour p)
                   (if nd_q p =? 0 then n else nd_name p) q r
  end.

Lemma estimate_finish : forall d0 ms, nm_estimate_gen true true d0 ms = finish (nm_first d0 ms).
Proof. reflexivity. Qed.

Section Before.
Variable ds' : list ndata.

(* the estimate, read off the places *)
Fixpoint est0 (pl : list place) : bool :=
  match pl with
  | [] => false
  | (NoItem, _) :: r => est0 r
  | (Rem _ _, _) :: _ => true
  | (Ins n q, g) :: r =>
      let p := nth g ds' nd_first in
      if negb (Nat.eqb (nd_name p) n) && negb (nd_q p =? 0) then true
      else nm_rest true (nd_q p)
                   (if nd_q p =? 0 then nd_tour p + 1 else nd_tour p)
                   (if nd_q p =? 0 then n else nd_name p) q (nm_mstops ds' (Some g) r)
  end.

Lemma finish_first : forall pl prev cur,
  (forall g', prev = Some g' -> cur = nth g' ds' nd_first) ->
  finish (nm_first cur (nm_mstops ds' prev pl)) = est0 pl.
Proof.
  induction pl as [|[it g] pl IH]; intros prev cur Hcur; [reflexivity|].
  cbn [nm_mstops nm_first].
  set (p := match prev with
            | Some g' => if Nat.eqb g' g then None else Some (nth g ds' nd_first)
            | None => Some (nth g ds' nd_first)
            end).
  assert (Hcur' : match p with Some d => d | None => cur end = nth g ds' nd_first).
  { subst p. destruct prev as [g'|]; [|reflexivity].
    destruct (Nat.eqb_spec g' g) as [E|E]; [|reflexivity].
    subst g'. apply Hcur. reflexivity. }
  rewrite Hcur'.
  destruct it as [|n q|n q]; cbn [has_item].
  - cbn [est0]. apply IH. intros g' Hg'. injection Hg' as <-. reflexivity.
  - reflexivity.
  - reflexivity.
Qed.

Lemma estimate_places_est0 : forall pl, nm_estimate_places true true ds' pl = est0 pl.
Proof.
  intros pl. unfold nm_estimate_places. destruct pl as [|[it g] pl]; [reflexivity|].
  rewrite estimate_finish. apply finish_first. intros g' H. discriminate.
Qed.

Definition P0 (pos : nat) (r : list item) (pl : list place) : Prop :=
  forall d_old dsr d_new,
   nm_run d_old r = Some dsr ->
   items_positive r = true ->
   (forall k, (k <= length r)%nat -> nth (pos + k) ds' nd_first = nth k (d_old :: dsr) nd_first) ->
   places_ok (pos + length r) pos pl = true ->
   items_positive (map fst pl) = true ->
   items_named (map fst pl) = true ->
   total (map fst pl) = 0 ->
   est0 pl = false ->
   0 <= nd_q d_old -> 0 <= nd_q d_new ->
   (forall m, board d_new m = board d_old m) ->
   exists ds2, nm_run d_new (insert_at pos r pl) = Some ds2.

Lemma before_ok : forall r pos pl, places_ok (pos + length r) pos pl = true -> P0 pos r pl.
Proof.
  apply (places_ind P0).
  - intros pos. unfold P0. intros. cbn. eexists. reflexivity.
  - intros pos x rest it pl Hok IH. unfold P0.
    intros d_old dsr d_new Hrun Hpos Hnth Hpl Hppos Hnamed Hbal Hest Hqo Hqn HB.
    rewrite insert_at_here.
    apply items_positive_place_cons in Hppos. destruct Hppos as [Hpit Hppos].
    rewrite total_place_cons in Hbal.
    cbn [map fst items_named forallb] in Hnamed. apply andb_prop in Hnamed.
    destruct Hnamed as [Hnm Hnamed]. fold (items_named (map fst pl)) in Hnamed.
    destruct it as [|n q|n q].
    + (* no item: nothing changes *)
      assert (Hun : exists dn1, nm_update d_new NoItem = Some dn1) by (eexists; reflexivity).
      destruct Hun as [dn1 Hun].
      apply (run_cons _ _ _ _ Hun).
      cbn [est0] in Hest. cbn [item_delta] in Hbal.
      apply (IH d_old dsr dn1); auto; try lia.
      * apply (nm_update_q_nonneg _ _ _ Hpit Hqn Hun).
      * intros m. rewrite (nm_update_board _ _ _ Hun m), HB. unfold item_sum. cbn. lia.
    + (* the first item of the move *)
      cbn [est0] in Hest.
      assert (Hp : nth pos ds' nd_first = d_old).
      { replace pos with (pos + 0)%nat at 1 by lia. rewrite Hnth by lia. reflexivity. }
      rewrite Hp in Hest. cbn zeta in Hest.
      cbn [item_name] in Hnm. pose proof Hpit as Hqpos. cbn [item_pos] in Hqpos. cbn [item_delta] in Hbal.
      assert (Hn0 : n <> 0%nat) by (destruct n; [discriminate|lia]).
      assert (HJ : forall m, m <> n -> board d_old m = 0).
      { intros m Hm. unfold board.
        destruct (Nat.eqb_spec m (nd_name d_old)) as [E|E]; [|reflexivity].
        destruct (Nat.eqb_spec (nd_name d_old) n) as [E1|E1]; [congruence|].
        destruct (Z.eqb_spec (nd_q d_old) 0) as [E0|E0]; [assumption|].
        cbn in Hest. discriminate. }
      assert (Hcn : (if nd_q d_old =? 0 then n else nd_name d_old) = n).
      { destruct (Z.eqb_spec (nd_q d_old) 0) as [E0|E0]; [reflexivity|].
        destruct (Nat.eqb_spec (nd_name d_old) n) as [E1|E1]; [assumption|].
        cbn in Hest. discriminate. }
      rewrite Hcn in Hest.
      destruct (negb (Nat.eqb (nd_name d_old) n) && negb (nd_q d_old =? 0)); [discriminate|].
      assert (Hsum : forall m, item_sum m (Ins n q) = if Nat.eqb m n then q else 0).
      { intros m. unfold item_sum. cbn [item_name item_delta]. rewrite (Nat.eqb_sym n m). reflexivity. }
      destruct (nm_update_some d_new (Ins n q)) as [dn1 Hun]; auto.
      * intros m. rewrite HB, Hsum. pose proof (board_nonneg d_old m Hqo).
        destruct (Nat.eqb m n); lia.
      * intros m1 m2. rewrite !HB, !Hsum. intros H1 H2.
        destruct (Nat.eqb_spec m1 n) as [E1|E1]; destruct (Nat.eqb_spec m2 n) as [E2|E2]; try congruence.
        -- rewrite (HJ m2 E2) in H2. lia.
        -- rewrite (HJ m1 E1) in H1. lia.
        -- rewrite (HJ m1 E1) in H1. lia.
      * apply (run_cons _ _ _ _ Hun).
        apply (span_ok ds' (nd_q d_old)
                 (if nd_q d_old =? 0 then nd_tour d_old + 1 else nd_tour d_old) n Hn0
                 (x :: rest) pos pl Hok d_old dsr dn1 q pos); auto; try lia.
        -- apply (nm_update_q_nonneg _ _ _ Hpit Hqn Hun).
        -- intros m. rewrite (nm_update_board _ _ _ Hun m), HB, Hsum. reflexivity.
        -- destruct (nd_q d_old =? 0); lia.
    + cbn [est0] in Hest. discriminate.
  - intros pos x rest pl Hok IH. unfold P0.
    intros d_old dsr d_new Hrun Hpos Hnth Hpl Hppos Hnamed Hbal Hest Hqo Hqn HB.
    rewrite insert_at_later by (apply (places_ok_ge _ _ _ Hok)).
    apply run_cons_inv in Hrun. destruct Hrun as (d1 & dsr1 & Hu & Hr & ->).
    rewrite items_positive_cons in Hpos. apply andb_prop in Hpos. destruct Hpos as [Hpx Hpos].
    destruct (step_new0 _ _ _ _ Hu Hpx Hqo Hqn HB) as (dn1 & Hun & Hqn1 & HB1).
    apply (run_cons _ _ _ _ Hun).
    apply (IH d1 dsr1 dn1); auto.
    + intros k Hk. replace (S pos + k)%nat with (pos + S k)%nat by lia.
      rewrite Hnth by (cbn [length]; lia). reflexivity.
    + apply (nm_update_q_nonneg _ _ _ Hpx Hqo Hu).
Qed.

End Before.

Theorem nm_estimate_sound : forall o ds pl,
  nm_run nd_first o = Some ds ->
  items_positive o = true ->
  items_positive (map fst pl) = true ->
  items_named (map fst pl) = true ->
  unit_balanced (map fst pl) = true ->
  places_ok (length o) 0 pl = true ->
  nm_estimate_places true true (nd_first :: ds) pl = false ->
  exists ds', nm_run nd_first (nm_merge o pl) = Some ds'.
Proof.
  intros o ds pl Hrun Hpos Hppos Hnamed Hbal Hok Hest.
  unfold nm_merge.
  rewrite estimate_places_est0 in Hest.
  apply (before_ok (nd_first :: ds) o 0%nat pl Hok nd_first ds nd_first); auto.
  - unfold unit_balanced in Hbal. unfold total. lia.
  - cbn. lia.
  - cbn. lia.
Qed.

(* ===================================================================== *)
(* 4. histories                                                           *)
(* ===================================================================== *)

From Coq Require Import Permutation.

(* ---- lists ----------------------------------------------------------- *)

Definition inb (ss : list nat) (s : nat) : bool := existsb (Nat.eqb s) ss.

Lemma inb_true : forall ss s, inb ss s = true <-> In s ss.
Proof.
  intros ss s. unfold inb. rewrite existsb_exists. split.
  - intros [x [Hin Hx]]. apply Nat.eqb_eq in Hx. subst. exact Hin.
  - intros Hin. exists s. split; [exact Hin|apply Nat.eqb_refl].
Qed.

Lemma inb_false : forall ss s, inb ss s = false <-> ~ In s ss.
Proof.
  intros ss s. rewrite <- inb_true. destruct (inb ss s); split; intros; try congruence.
Qed.

Lemma filter_firstn_ex : forall A (Q : A -> bool) l k,
  exists j, filter Q (firstn k l) = firstn j (filter Q l).
Proof.
  intros A Q. induction l as [|a l IH]; intros k.
  - exists 0%nat. destruct k; reflexivity.
  - destruct k as [|k]; [exists 0%nat; reflexivity|].
    cbn [firstn filter]. destruct (IH k) as [j Hj].
    destruct (Q a).
    + exists (S j). cbn [firstn]. rewrite Hj. reflexivity.
    + exists j. exact Hj.
Qed.

Lemma firstn_filter_ex : forall A (Q : A -> bool) l k,
  exists j, (j <= length l)%nat /\ firstn k (filter Q l) = filter Q (firstn j l).
Proof.
  intros A Q. induction l as [|a l IH]; intros k.
  - exists 0%nat. split; [reflexivity|]. destruct k; reflexivity.
  - cbn [filter]. destruct (Q a) eqn:Ea.
    + destruct k as [|k].
      * exists 0%nat. split; [cbn; lia|reflexivity].
      * destruct (IH k) as [j [Hj1 Hj2]]. exists (S j). split; [cbn; lia|].
        cbn [firstn filter]. rewrite Ea, Hj2. reflexivity.
    + destruct (IH k) as [j [Hj1 Hj2]]. exists (S j). split; [cbn; lia|].
      cbn [firstn filter]. rewrite Ea. exact Hj2.
Qed.

Lemma filter_andb : forall A (P Q : A -> bool) l,
  filter (fun s => P s && Q s) l = filter P (filter Q l).
Proof.
  intros A P Q. induction l as [|a l IH]; [reflexivity|].
  cbn [filter]. destruct (Q a) eqn:Eq; cbn [filter].
  - rewrite andb_true_r. destruct (P a); rewrite IH; reflexivity.
  - rewrite andb_false_r. exact IH.
Qed.

Lemma filter_all_true : forall A (V : A -> bool) l,
  (forall x, In x l -> V x = true) -> filter V l = l.
Proof.
  intros A V. induction l as [|a l IH]; intros H; [reflexivity|].
  cbn [filter]. rewrite (H a (or_introl eq_refl)). f_equal. apply IH.
  intros x Hx. apply H. right. exact Hx.
Qed.

Lemma filter_all_false : forall A (V : A -> bool) l,
  (forall x, In x l -> V x = false) -> filter V l = [].
Proof.
  intros A V. induction l as [|a l IH]; intros H; [reflexivity|].
  cbn [filter]. rewrite (H a (or_introl eq_refl)). apply IH.
  intros x Hx. apply H. right. exact Hx.
Qed.

Lemma name_sum_app : forall n a b, name_sum n (a ++ b) = name_sum n a + name_sum n b.
Proof.
  intros n a b. induction a as [|x a IH]; [rewrite name_sum_nil; cbn [app]; lia|].
  cbn [app]. rewrite !name_sum_cons, IH. lia.
Qed.

Lemma name_sum_filter_split : forall (f : nat -> item) (P Q : nat -> bool) l n,
  name_sum n (map f (filter P l))
  = name_sum n (map f (filter (fun s => P s && Q s) l))
    + name_sum n (map f (filter (fun s => P s && negb (Q s)) l)).
Proof.
  intros f P Q l n. induction l as [|a l IH]; [reflexivity|].
  cbn [filter]. destruct (P a), (Q a); cbn [andb negb map]; rewrite ?name_sum_cons; lia.
Qed.

(* ---- insert_at -------------------------------------------------------- *)

Lemma filter_map_comm : forall A B (g : A -> B) (P : B -> bool) (Q : A -> bool) l,
  (forall x, P (g x) = Q x) -> filter P (map g l) = map g (filter Q l).
Proof.
  intros A B g P Q l H. induction l as [|a l IH]; [reflexivity|].
  cbn [map filter]. rewrite H. destruct (Q a); cbn [map]; rewrite IH; reflexivity.
Qed.

Lemma insert_at_map : forall A B (f : A -> B) r pos pl,
  map f (insert_at pos r pl)
  = insert_at pos (map f r) (map (fun p => (f (fst p), snd p)) pl).
Proof.
  intros A B f. induction r as [|x r IH]; intros pos pl.
  - cbn [insert_at map]. rewrite !map_map. reflexivity.
  - cbn [insert_at map]. rewrite map_app. cbn [map]. rewrite IH.
    rewrite (filter_map_comm _ _ (fun p : A * nat => (f (fst p), snd p))
               (fun p : B * nat => Nat.eqb (snd p) pos)
               (fun p : A * nat => Nat.eqb (snd p) pos)) by reflexivity.
    rewrite (filter_map_comm _ _ (fun p : A * nat => (f (fst p), snd p))
               (fun p : B * nat => negb (Nat.eqb (snd p) pos))
               (fun p : A * nat => negb (Nat.eqb (snd p) pos))) by reflexivity.
    rewrite !map_map. reflexivity.
Qed.

Lemma insert_at_snoc : forall A (z : A) r pos pl,
  (forall p, In p pl -> (pos <= snd p <= pos + length r)%nat) ->
  insert_at pos (r ++ [z]) pl = insert_at pos r pl ++ [z].
Proof.
  intros A z. induction r as [|x r IH]; intros pos pl H.
  - cbn [app insert_at].
    rewrite (filter_all_true _ (fun p : A * nat => Nat.eqb (snd p) pos) pl).
    + rewrite (filter_all_false _ (fun p : A * nat => negb (Nat.eqb (snd p) pos)) pl).
      * reflexivity.
      * intros p Hp. specialize (H p Hp). cbn in H.
        replace (snd p) with pos by lia. rewrite Nat.eqb_refl. reflexivity.
    + intros p Hp. specialize (H p Hp). cbn in H. apply Nat.eqb_eq. lia.
  - cbn [app insert_at]. rewrite IH.
    + rewrite <- app_assoc. reflexivity.
    + intros p Hp. apply filter_In in Hp. destruct Hp as [Hp Hne].
      specialize (H p Hp). cbn [length] in H.
      destruct (Nat.eqb_spec (snd p) pos); [discriminate|]. lia.
Qed.

Lemma perm_filter_split : forall A (f : A -> bool) l,
  Permutation (filter f l ++ filter (fun x => negb (f x)) l) l.
Proof.
  intros A f. induction l as [|a l IH]; [constructor|].
  cbn [filter]. destruct (f a); cbn [negb app].
  - constructor. exact IH.
  - apply Permutation_sym. apply Permutation_cons_app. apply Permutation_sym. exact IH.
Qed.

Lemma insert_at_perm : forall A (r : list A) pos pl,
  Permutation (insert_at pos r pl) (map fst pl ++ r).
Proof.
  intros A. induction r as [|x r IH]; intros pos pl.
  - cbn [insert_at]. rewrite app_nil_r. apply Permutation_refl.
  - cbn [insert_at].
    set (here := filter (fun p : A * nat => Nat.eqb (snd p) pos) pl).
    set (later := filter (fun p : A * nat => negb (Nat.eqb (snd p) pos)) pl).
    assert (Hpl : Permutation (map fst here ++ map fst later) (map fst pl)).
    { rewrite <- map_app. apply Permutation_map. apply perm_filter_split. }
    eapply Permutation_trans.
    { apply Permutation_app_head. apply perm_skip. apply (IH (S pos) later). }
    eapply Permutation_trans; [|apply Permutation_app_tail; exact Hpl].
    rewrite <- app_assoc. apply Permutation_app_head.
    apply Permutation_middle.
Qed.

Fixpoint gsorted {A} (lo : nat) (pl : list (A * nat)) : Prop :=
  match pl with
  | [] => True
  | p :: r => (lo <= snd p)%nat /\ gsorted (snd p) r
  end.

Lemma gsorted_all_ge : forall A (pl : list (A * nat)) lo,
  gsorted lo pl -> forall p, In p pl -> (lo <= snd p)%nat.
Proof.
  intros A. induction pl as [|a pl IH]; intros lo H p Hin; [destruct Hin|].
  destruct H as [H1 H2]. destruct Hin as [<-|Hin]; [exact H1|].
  specialize (IH _ H2 _ Hin). lia.
Qed.

Lemma gsorted_split : forall A (pl : list (A * nat)) pos,
  gsorted pos pl ->
  filter (fun p => Nat.eqb (snd p) pos) pl ++ filter (fun p => negb (Nat.eqb (snd p) pos)) pl = pl
  /\ gsorted (S pos) (filter (fun p => negb (Nat.eqb (snd p) pos)) pl).
Proof.
  intros A. induction pl as [|a pl IH]; intros pos H; [split; [reflexivity|exact I]|].
  destruct H as [H1 H2]. cbn [filter].
  destruct (Nat.eqb_spec (snd a) pos) as [E|E]; cbn [negb].
  - rewrite E in H2. destruct (IH pos H2) as [IH1 IH2].
    split; [cbn [app]; rewrite IH1; reflexivity|exact IH2].
  - pose proof (gsorted_all_ge _ _ _ H2) as Hge.
    rewrite (filter_all_false _ (fun p : A * nat => Nat.eqb (snd p) pos) pl).
    + rewrite (filter_all_true _ (fun p : A * nat => negb (Nat.eqb (snd p) pos)) pl).
      * split; [reflexivity|]. cbn [gsorted]. split; [lia|exact H2].
      * intros p Hp. specialize (Hge p Hp). destruct (Nat.eqb_spec (snd p) pos); [lia|reflexivity].
    + intros p Hp. specialize (Hge p Hp). destruct (Nat.eqb_spec (snd p) pos); [lia|reflexivity].
Qed.

Lemma insert_at_filter_in : forall (V : nat -> bool) (r : list nat) pos pl,
  gsorted pos pl ->
  (forall p, In p pl -> V (fst p) = true) ->
  (forall x, In x r -> V x = false) ->
  filter V (insert_at pos r pl) = map fst pl.
Proof.
  intros V. induction r as [|x r IH]; intros pos pl Hs Hpl Hr.
  - cbn [insert_at]. apply filter_all_true. intros y Hy.
    apply in_map_iff in Hy. destruct Hy as [p [<- Hp]]. apply Hpl. exact Hp.
  - cbn [insert_at]. destruct (gsorted_split _ _ _ Hs) as [Hsplit Hlater].
    rewrite filter_app. cbn [filter]. rewrite (Hr x (or_introl eq_refl)).
    rewrite IH.
    + rewrite filter_all_true.
      * rewrite <- map_app, Hsplit. reflexivity.
      * intros y Hy. apply in_map_iff in Hy. destruct Hy as [p [<- Hp]].
        apply filter_In in Hp. apply Hpl. apply Hp.
    + exact Hlater.
    + intros p Hp. apply filter_In in Hp. apply Hpl. apply Hp.
    + intros y Hy. apply Hr. right. exact Hy.
Qed.

Lemma insert_at_filter_out : forall (V : nat -> bool) (r : list nat) pos pl,
  (forall p, In p pl -> V (fst p) = false) ->
  (forall x, In x r -> V x = true) ->
  filter V (insert_at pos r pl) = r.
Proof.
  intros V. induction r as [|x r IH]; intros pos pl Hpl Hr.
  - cbn [insert_at]. apply filter_all_false. intros y Hy.
    apply in_map_iff in Hy. destruct Hy as [p [<- Hp]]. apply Hpl. exact Hp.
  - cbn [insert_at]. rewrite filter_app. cbn [filter]. rewrite (Hr x (or_introl eq_refl)).
    rewrite IH.
    + rewrite filter_all_false; [reflexivity|].
      intros y Hy. apply in_map_iff in Hy. destruct Hy as [p [<- Hp]].
      apply filter_In in Hp. apply Hpl. apply Hp.
    + intros p Hp. apply filter_In in Hp. apply Hpl. apply Hp.
    + intros y Hy. apply Hr. right. exact Hy.
Qed.

Lemma filter_comm : forall A (P Q : A -> bool) l, filter P (filter Q l) = filter Q (filter P l).
Proof.
  intros A P Q. induction l as [|a l IH]; [reflexivity|].
  cbn [filter]. destruct (Q a) eqn:Eq, (P a) eqn:Ep; cbn [filter]; rewrite ?Eq, ?Ep, IH; reflexivity.
Qed.

Lemma name_sum_partition : forall (f : nat -> item) (Q : nat -> bool) l n,
  name_sum n (map f l)
  = name_sum n (map f (filter Q l)) + name_sum n (map f (filter (fun s => negb (Q s)) l)).
Proof.
  intros f Q l n. induction l as [|a l IH]; [reflexivity|].
  cbn [filter map]. rewrite name_sum_cons.
  destruct (Q a); cbn [negb map]; rewrite ?name_sum_cons; lia.
Qed.

Lemma existsb_false : forall A (f : A -> bool) l,
  existsb f l = false -> forall x, In x l -> f x = false.
Proof.
  intros A f l H x Hin. destruct (f x) eqn:E; [|reflexivity].
  assert (existsb f l = true) by (apply existsb_exists; exists x; auto). congruence.
Qed.

Lemma forallb_nth : forall A (f : A -> bool) l d s,
  forallb f l = true -> f d = true -> f (nth s l d) = true.
Proof.
  intros A f l d s H Hd. destruct (Nat.lt_ge_cases s (length l)) as [Hlt|Hge].
  - apply (proj1 (forallb_forall f l) H). apply nth_In. exact Hlt.
  - rewrite nth_overflow by exact Hge. exact Hd.
Qed.

Lemma nodupb_NoDup : forall l, nodupb l = true -> NoDup l.
Proof.
  induction l as [|a l IH]; intros H; [constructor|].
  cbn [nodupb] in H. apply andb_prop in H. destruct H as [H1 H2].
  constructor; [|apply IH; exact H2].
  apply inb_false. unfold inb. destruct (existsb (Nat.eqb a) l); [discriminate|reflexivity].
Qed.

Lemma NoDup_app_disj : forall A (a b : list A) x, NoDup (a ++ b) -> In x a -> In x b -> False.
Proof.
  intros A. induction a as [|y a IH]; intros b x H Ha Hb; [destruct Ha|].
  cbn [app] in H. inversion H as [|? ? Hny Hnd]; subst.
  destruct Ha as [->|Ha].
  - apply Hny. apply in_or_app. right. exact Hb.
  - apply (IH b x Hnd Ha Hb).
Qed.

Lemma NoDup_app_parts : forall A (a b : list A), NoDup (a ++ b) -> NoDup a /\ NoDup b.
Proof.
  intros A. induction a as [|y a IH]; intros b H; [split; [constructor|exact H]|].
  cbn [app] in H. inversion H as [|? ? Hny Hnd]; subst.
  destruct (IH b Hnd) as [Ha Hb]. split; [|exact Hb].
  constructor; [|exact Ha]. intros Hin. apply Hny. apply in_or_app. left. exact Hin.
Qed.

Lemma NoDup_app_intro : forall A (a b : list A),
  NoDup a -> NoDup b -> (forall x, In x a -> ~ In x b) -> NoDup (a ++ b).
Proof.
  intros A. induction a as [|y a IH]; intros b Ha Hb Hd; [exact Hb|].
  inversion Ha as [|? ? Hny Hnd]; subst. cbn [app]. constructor.
  - intros Hin. apply in_app_or in Hin. destruct Hin as [Hin|Hin]; [auto|].
    apply (Hd y (or_introl eq_refl) Hin).
  - apply IH; auto. intros x Hx. apply Hd. right. exact Hx.
Qed.

Lemma concat_nth_in : forall (L : list (list nat)) j s,
  (j < length L)%nat -> In s (nth j L []) -> In s (concat L).
Proof.
  intros L j s Hj Hs. apply in_concat. exists (nth j L []). split; [apply nth_In; exact Hj|exact Hs].
Qed.

Lemma concat_nth_disj : forall (L : list (list nat)) i j s,
  NoDup (concat L) -> i <> j -> (i < length L)%nat -> (j < length L)%nat ->
  In s (nth i L []) -> In s (nth j L []) -> False.
Proof.
  induction L as [|a L IH]; intros i j s Hnd Hij Hi Hj Hsi Hsj; [cbn in Hi; lia|].
  cbn [concat] in Hnd. cbn [length] in Hi, Hj.
  destruct i as [|i], j as [|j]; cbn [nth] in Hsi, Hsj.
  - lia.
  - apply (NoDup_app_disj _ _ _ _ Hnd Hsi). apply (concat_nth_in L j s); [lia|exact Hsj].
  - apply (NoDup_app_disj _ _ _ _ Hnd Hsj). apply (concat_nth_in L i s); [lia|exact Hsi].
  - apply (IH i j s); try lia; auto. apply (NoDup_app_parts _ _ _ Hnd).
Qed.

Lemma concat_nth_nodup : forall (L : list (list nat)) i,
  NoDup (concat L) -> (i < length L)%nat -> NoDup (nth i L []).
Proof.
  induction L as [|a L IH]; intros i Hnd Hi; [cbn in Hi; lia|].
  cbn [concat] in Hnd. destruct (NoDup_app_parts _ _ _ Hnd) as [Ha HL].
  destruct i as [|i]; cbn [nth]; [exact Ha|]. apply IH; [exact HL|cbn in Hi; lia].
Qed.

Lemma map_fst_combine : forall A B (a : list A) (b : list B),
  length b = length a -> map fst (combine a b) = a.
Proof.
  intros A B. induction a as [|x a IH]; intros b H; [reflexivity|].
  destruct b as [|y b]; [discriminate|]. cbn [combine map fst]. f_equal. apply IH.
  cbn in H. lia.
Qed.

(* ---- the estimate keeps a unit self-sufficient ----------------------- *)

Lemma mstops_fst : forall ds pl prev, map fst (nm_mstops ds prev pl) = map fst pl.
Proof.
  intros ds. induction pl as [|[it g] pl IH]; intros prev; [reflexivity|].
  cbn [nm_mstops map fst]. rewrite IH. reflexivity.
Qed.

Lemma rest_prefix_nonneg : forall ms base tour c delta,
  nm_rest true base tour c delta ms = false -> 0 <= delta ->
  items_positive (map fst ms) = true ->
  forall j m, 0 <= (if Nat.eqb m c then delta else 0) + name_sum m (firstn j (map fst ms)).
Proof.
  induction ms as [|[it p] ms IH]; intros base tour c delta Hrest Hd Hpos j m.
  - destruct j; cbn [map firstn]; rewrite name_sum_nil; destruct (Nat.eqb m c); lia.
  - cbn [map fst] in Hpos. rewrite items_positive_cons in Hpos.
    apply andb_prop in Hpos. destruct Hpos as [Hpit Hpos].
    apply (nm_rest_step _ _ _ _ _ _ _ Hpit) in Hrest.
    destruct Hrest as (Hsum & Hd' & Hrest & _). specialize (Hd' Hd).
    destruct j as [|j]; cbn [map fst firstn].
    + rewrite name_sum_nil. destruct (Nat.eqb m c); lia.
    + rewrite name_sum_cons, Hsum.
      specialize (IH _ _ _ _ Hrest Hd' Hpos j m).
      destruct (Nat.eqb m c); lia.
Qed.

Lemma est0_prefix_nonneg : forall ds' pl,
  est0 ds' pl = false -> items_positive (map fst pl) = true ->
  forall j m, 0 <= name_sum m (firstn j (map fst pl)).
Proof.
  intros ds'. induction pl as [|[it g] pl IH]; intros Hest Hpos j m.
  - destruct j; cbn; lia.
  - apply items_positive_place_cons in Hpos. destruct Hpos as [Hpit Hpos].
    destruct j as [|j]; [cbn; lia|].
    cbn [map fst firstn]. rewrite name_sum_cons.
    destruct it as [|n q|n q]; cbn [est0] in Hest.
    + specialize (IH Hest Hpos j m). unfold item_sum. cbn. lia.
    + cbn zeta in Hest. set (p := nth g ds' nd_first) in Hest.
      assert (Hr : nm_rest true (nd_q p) (if nd_q p =? 0 then nd_tour p + 1 else nd_tour p)
                     n q (nm_mstops ds' (Some g) pl) = false).
      { destruct (Z.eqb_spec (nd_q p) 0) as [E0|E0];
        destruct (Nat.eqb_spec (nd_name p) n) as [E1|E1]; cbn in Hest; try discriminate;
        try exact Hest. rewrite E1 in Hest. exact Hest. }
      cbn [item_pos] in Hpit.
      assert (Hms : items_positive (map fst (nm_mstops ds' (Some g) pl)) = true)
        by (rewrite mstops_fst; exact Hpos).
      pose proof (rest_prefix_nonneg _ _ _ _ _ Hr ltac:(lia) Hms j m) as H.
      rewrite mstops_fst in H.
      unfold item_sum. cbn [item_name item_delta]. rewrite (Nat.eqb_sym n m). exact H.
    + discriminate.
Qed.

Lemma gaps_ok_combine : forall (f : nat -> item) ss gaps n lo,
  length gaps = length ss -> gaps_ok n lo gaps = true ->
  gsorted lo (combine ss gaps)
  /\ (forall p, In p (combine ss gaps) -> (lo <= snd p < n)%nat)
  /\ places_ok n lo (map (fun sg => (f (fst sg), snd sg)) (combine ss gaps)) = true.
Proof.
  intros f. induction ss as [|s ss IH]; intros gaps n lo Hlen Hok.
  - cbn. split; [exact I|]. split; [intros p []|reflexivity].
  - destruct gaps as [|g gaps]; [discriminate|].
    cbn [gaps_ok] in Hok. apply andb_prop in Hok. destruct Hok as [Hok H3].
    apply andb_prop in Hok. destruct Hok as [H1 H2].
    assert (Hlen' : length gaps = length ss) by (cbn in Hlen; lia).
    destruct (IH gaps n g Hlen' H3) as (I1 & I2 & I3).
    apply Nat.leb_le in H1. apply Nat.ltb_lt in H2.
    cbn [combine]. split; [|split].
    + cbn [gsorted snd]. split; [exact H1|exact I1].
    + intros p [<-|Hp]; [cbn; lia|]. specialize (I2 p Hp). lia.
    + cbn [map places_ok fst snd]. rewrite I3.
      replace (Nat.leb lo g) with true by (symmetry; apply Nat.leb_le; exact H1).
      replace (Nat.ltb g n) with true by (symmetry; apply Nat.ltb_lt; exact H2).
      reflexivity.
Qed.

Lemma in_firstn : forall A (l : list A) k x, In x (firstn k l) -> In x l.
Proof.
  intros A. induction l as [|a l IH]; intros k x H; destruct k; cbn [firstn] in H; try destruct H.
  - left. assumption.
  - right. apply (IH k x). assumption.
Qed.

Lemma name_sum_firstn_snoc : forall l k,
  exists k', (k' <= length l)%nat /\
    forall n, name_sum n (firstn k (l ++ [NoItem])) = name_sum n (firstn k' l).
Proof.
  intros l k. destruct (Nat.le_gt_cases k (length l)) as [Hle|Hgt].
  - exists k. split; [exact Hle|]. intros n. rewrite firstn_app.
    replace (k - length l)%nat with 0%nat by lia. cbn [firstn]. rewrite app_nil_r. reflexivity.
  - exists (length l). split; [lia|]. intros n.
    rewrite firstn_all2 by (rewrite app_length; cbn; lia).
    rewrite firstn_all, name_sum_app. cbn. lia.
Qed.

Section Hist.
Variable inp : nm_input.
Hypothesis Hok : nm_input_ok inp = true.

Let f := nm_item_of inp.
Let N := length (nmi_units inp).

Lemma ok_parts :
  items_positive (nmi_items inp) = true /\ items_named (nmi_items inp) = true /\
  NoDup (concat (nmi_units inp)) /\
  forallb (fun ss => unit_balanced (map (nm_item_of inp) ss)) (nmi_units inp) = true.
Proof.
  unfold nm_input_ok in Hok.
  apply andb_prop in Hok. destruct Hok as [H H5].
  apply andb_prop in H. destruct H as [H H4].
  apply andb_prop in H. destruct H as [H H3].
  apply andb_prop in H. destruct H as [H1 H2].
  repeat split; auto. apply nodupb_NoDup. exact H3.
Qed.

Lemma ok_pos : forall l, items_positive (map f l) = true.
Proof.
  intros l. unfold items_positive. apply forallb_forall. intros it Hit.
  apply in_map_iff in Hit. destruct Hit as [s [<- _]].
  unfold f, nm_item_of.
  apply (forallb_nth _ (fun it => match it with NoItem => true | Ins _ q => 0 <? q | Rem _ q => 0 <? q end));
    [apply ok_parts|reflexivity].
Qed.

Lemma ok_named : forall l, items_named (map f l) = true.
Proof.
  intros l. unfold items_named. apply forallb_forall. intros it Hit.
  apply in_map_iff in Hit. destruct Hit as [s [<- _]].
  unfold f, nm_item_of.
  apply (forallb_nth _ (fun it => match item_name it with Some O => false | _ => true end));
    [apply ok_parts|reflexivity].
Qed.

Lemma ok_route_pos : forall route, items_positive (nm_route_items inp route) = true.
Proof.
  intros route. unfold nm_route_items. rewrite items_positive_app.
  fold f. rewrite ok_pos. reflexivity.
Qed.

Lemma ok_disj : forall u u' s, (u < N)%nat -> (u' < N)%nat -> u <> u' ->
  In s (nm_unit inp u) -> In s (nm_unit inp u') -> False.
Proof.
  intros u u' s Hu Hu' Hne H1 H2.
  apply (concat_nth_disj (nmi_units inp) u u' s); auto. apply ok_parts.
Qed.

Lemma ok_nodup : forall u, (u < N)%nat -> NoDup (nm_unit inp u).
Proof. intros u Hu. apply concat_nth_nodup; [apply ok_parts|exact Hu]. Qed.

Lemma ok_bal : forall u, (u < N)%nat -> unit_balanced (map f (nm_unit inp u)) = true.
Proof.
  intros u Hu. destruct ok_parts as (_ & _ & _ & H).
  apply (proj1 (forallb_forall _ _) H). apply nth_In. exact Hu.
Qed.

Definition unit_closed (P : nat -> bool) : Prop :=
  forall u, (u < N)%nat ->
    (forall s, In s (nm_unit inp u) -> P s = true) \/ (forall s, In s (nm_unit inp u) -> P s = false).

Lemma closed_unit : forall u, (u < N)%nat -> unit_closed (inb (nm_unit inp u)).
Proof.
  intros u Hu u' Hu'. destruct (Nat.eq_dec u' u) as [->|Hne].
  - left. intros s Hs. apply inb_true. exact Hs.
  - right. intros s Hs. apply inb_false. intros Hs'. apply (ok_disj u' u s); auto.
Qed.

Lemma closed_neg : forall P, unit_closed P -> unit_closed (fun s => negb (P s)).
Proof.
  intros P HP u Hu. destruct (HP u Hu) as [H|H]; [right|left]; intros s Hs; rewrite (H s Hs); reflexivity.
Qed.

Lemma closed_and : forall P Q, unit_closed P -> unit_closed Q -> unit_closed (fun s => P s && Q s).
Proof.
  intros P Q HP HQ u Hu. destruct (HP u Hu) as [H|H]; destruct (HQ u Hu) as [H'|H'];
    [left|right|right|right]; intros s Hs; rewrite (H s Hs), (H' s Hs); reflexivity.
Qed.

Definition whole (route : list nat) : Prop :=
  forall u, (u < N)%nat ->
     (forall s, In s (nm_unit inp u) -> In s route) \/
     (forall s, In s (nm_unit inp u) -> ~ In s route).

Definition Dinv (route : list nat) : Prop :=
  forall P, unit_closed P -> forall k n, 0 <= name_sum n (map f (filter P (firstn k route))).

Definition Inv (route : list nat) : Prop :=
  (exists ds, nm_run nd_first (nm_route_items inp route) = Some ds) /\
  NoDup route /\ whole route /\ Dinv route.

Lemma Inv_nil : Inv [].
Proof.
  split; [|split; [|split]].
  - eexists. reflexivity.
  - constructor.
  - intros u Hu. right. intros s _ [].
  - intros P HP k n. destruct k; cbn; lia.
Qed.

(* the sums of a prefix of the route, from the exact rule *)
Lemma route_prefix_sums : forall route, Inv route -> forall j, (j <= length route)%nat ->
  (forall n, 0 <= name_sum n (map f (firstn j route))) /\
  (forall n m, 0 < name_sum n (map f (firstn j route)) ->
               0 < name_sum m (map f (firstn j route)) -> n = m).
Proof.
  intros route [Hrun _] j Hj.
  pose proof (proj1 (nm_run_spec _ (ok_route_pos route)) Hrun j) as H.
  unfold nm_route_items in H. fold f in H.
  rewrite app_length, map_length in H. specialize (H ltac:(lia)).
  rewrite firstn_app, map_length in H.
  replace (j - length route)%nat with 0%nat in H by lia.
  cbn [firstn] in H. rewrite app_nil_r, firstn_map in H. exact H.
Qed.

Lemma unplan_inv : forall route u, Inv route -> (u < N)%nat ->
  Inv (filter (fun x => negb (inb (nm_unit inp u) x)) route).
Proof.
  intros route u HI Hu.
  set (ss := nm_unit inp u).
  set (Q := fun x => negb (inb ss x)).
  assert (HQ : unit_closed Q) by (apply closed_neg; apply closed_unit; exact Hu).
  assert (HnQ : unit_closed (fun x => negb (Q x))) by (apply closed_neg; exact HQ).
  pose proof HI as (Hrun & Hnd & Hwh & HD).
  assert (HD' : Dinv (filter Q route)).
  { intros P HP k n.
    destruct (firstn_filter_ex _ Q route k) as [j [_ Hj]].
    rewrite Hj, <- filter_andb. apply HD. apply closed_and; assumption. }
  split; [|split; [|split]].
  - apply (nm_run_spec _ (ok_route_pos _)).
    intros k Hk. unfold nm_route_items. fold f.
    destruct (name_sum_firstn_snoc (map f (filter Q route)) k) as [k' [Hk' Hsum]].
    rewrite map_length in Hk'.
    destruct (firstn_filter_ex _ Q route k') as [j [Hj Hjeq]].
    assert (Heq : forall n, name_sum n (firstn k (map f (filter Q route) ++ [NoItem]))
                            = name_sum n (map f (filter Q (firstn j route)))).
    { intros n. rewrite Hsum, firstn_map, Hjeq. reflexivity. }
    assert (Hle : forall n, 0 <= name_sum n (map f (filter Q (firstn j route)))
                            <= name_sum n (map f (firstn j route))).
    { intros n. rewrite (name_sum_partition f Q (firstn j route) n).
      pose proof (HD Q HQ j n). pose proof (HD _ HnQ j n). lia. }
    destruct (route_prefix_sums route HI j Hj) as [_ Hone].
    split.
    + intros n. rewrite Heq. apply Hle.
    + intros n m. rewrite !Heq. intros Hn Hm. apply Hone.
      * pose proof (Hle n). lia.
      * pose proof (Hle m). lia.
  - apply NoDup_filter. exact Hnd.
  - intros u' Hu'. destruct (Nat.eq_dec u' u) as [->|Hne].
    + right. intros s Hs Hin. apply filter_In in Hin. destruct Hin as [_ Hq].
      unfold Q in Hq. fold ss in Hs. apply inb_true in Hs. rewrite Hs in Hq. discriminate.
    + destruct (Hwh u' Hu') as [H|H].
      * left. intros s Hs. apply filter_In. split; [apply H; exact Hs|].
        unfold Q. replace (inb ss s) with false; [reflexivity|].
        symmetry. apply inb_false. intros Hs'. apply (ok_disj u' u s); auto.
      * right. intros s Hs Hin. apply filter_In in Hin. apply (H s Hs). apply Hin.
  - exact HD'.
Qed.

Lemma plan_inv : forall route u gaps ds,
  Inv route -> (u < N)%nat ->
  (forall s, In s (nm_unit inp u) -> ~ In s route) ->
  length gaps = length (nm_unit inp u) ->
  gaps_ok (S (length route)) 0 gaps = true ->
  nm_run nd_first (nm_route_items inp route) = Some ds ->
  nm_estimate_places true true (nd_first :: ds)
    (map (fun sg => (nm_item_of inp (fst sg), snd sg)) (combine (nm_unit inp u) gaps)) = false ->
  Inv (insert_at 0 route (combine (nm_unit inp u) gaps)).
Proof.
  intros route u gaps ds HI Hu Hoff Hlen Hgaps Hds Hest.
  set (ss := nm_unit inp u) in *.
  set (pl := combine ss gaps) in *.
  set (ipl := map (fun sg => (nm_item_of inp (fst sg), snd sg)) pl) in *.
  pose proof HI as (Hrun & Hnd & Hwh & HD).
  destruct (gaps_ok_combine f ss gaps _ _ Hlen Hgaps) as (Hsorted & Hrange & Hplaces).
  fold pl in Hsorted, Hrange, Hplaces. fold f in ipl. fold ipl in Hplaces.
  assert (Hfst : map fst pl = ss) by (apply map_fst_combine; exact Hlen).
  assert (Hifst : map fst ipl = map f ss).
  { unfold ipl. rewrite map_map. cbn [fst]. rewrite <- Hfst, map_map. reflexivity. }
  assert (Hin : forall s, In s (insert_at 0 route pl) <-> In s ss \/ In s route).
  { intros s. rewrite <- Hfst, <- in_app_iff. split; intros H.
    - apply (Permutation_in _ (insert_at_perm _ route 0%nat pl) H).
    - apply (Permutation_in _ (Permutation_sym (insert_at_perm _ route 0%nat pl)) H). }
  assert (HV1 : forall p, In p pl -> inb ss (fst p) = true).
  { intros p Hp. apply inb_true. rewrite <- Hfst. apply in_map. exact Hp. }
  assert (HV2 : forall x, In x route -> inb ss x = false).
  { intros x Hx. apply inb_false. intros Hs. apply (Hoff x Hs Hx). }
  rewrite estimate_places_est0 in Hest.
  split; [|split; [|split]].
  - assert (Heq : nm_route_items inp (insert_at 0 route pl) = nm_merge (nm_route_items inp route) ipl).
    { unfold nm_route_items, nm_merge. fold f. rewrite insert_at_map. fold ipl.
      symmetry. apply insert_at_snoc. intros p Hp. unfold ipl in Hp.
      apply in_map_iff in Hp. destruct Hp as [sg [<- Hsg]]. cbn [snd].
      specialize (Hrange sg Hsg). rewrite map_length. lia. }
    rewrite Heq.
    apply (nm_estimate_sound _ ds ipl Hds (ok_route_pos route)).
    + rewrite Hifst. apply ok_pos.
    + rewrite Hifst. apply ok_named.
    + rewrite Hifst. apply ok_bal. exact Hu.
    + unfold nm_route_items. rewrite app_length, map_length. cbn [length].
      replace (length route + 1)%nat with (S (length route)) by lia. exact Hplaces.
    + rewrite estimate_places_est0. exact Hest.
  - apply (Permutation_NoDup (Permutation_sym (insert_at_perm _ route 0%nat pl))).
    rewrite Hfst. apply NoDup_app_intro; [apply ok_nodup; exact Hu|exact Hnd|exact Hoff].
  - intros u' Hu'. destruct (Nat.eq_dec u' u) as [->|Hne].
    + left. intros s Hs. apply Hin. left. exact Hs.
    + destruct (Hwh u' Hu') as [H|H].
      * left. intros s Hs. apply Hin. right. apply H. exact Hs.
      * right. intros s Hs Hs'. apply Hin in Hs'. destruct Hs' as [Hs'|Hs'].
        -- apply (ok_disj u' u s); auto.
        -- apply (H s Hs Hs').
  - intros P HP k n.
    rewrite (name_sum_partition f (inb ss) (filter P (firstn k (insert_at 0 route pl))) n).
    rewrite !(filter_comm _ _ P).
    destruct (filter_firstn_ex _ (inb ss) (insert_at 0 route pl) k) as [j1 Hj1].
    destruct (filter_firstn_ex _ (fun s => negb (inb ss s)) (insert_at 0 route pl) k) as [j2 Hj2].
    rewrite Hj1, Hj2.
    rewrite (insert_at_filter_in (inb ss) route 0%nat pl Hsorted HV1 HV2).
    rewrite (insert_at_filter_out (fun s => negb (inb ss s)) route 0%nat pl).
    + rewrite Hfst.
      pose proof (HD P HP j2 n) as H2.
      assert (H1 : 0 <= name_sum n (map f (filter P (firstn j1 ss)))).
      { destruct (HP u Hu) as [Ht|Hf].
        - rewrite filter_all_true.
          + rewrite <- firstn_map, <- Hifst.
            apply (est0_prefix_nonneg _ _ Hest). rewrite Hifst. apply ok_pos.
          + intros x Hx. apply Ht. apply (in_firstn _ _ _ _ Hx).
        - rewrite filter_all_false; [cbn; lia|].
          intros x Hx. apply Hf. apply (in_firstn _ _ _ _ Hx). }
      lia.
    + intros p Hp. rewrite (HV1 p Hp). reflexivity.
    + intros x Hx. rewrite (HV2 x Hx). reflexivity.
Qed.

End Hist.

Lemma plan_step : forall inp route u gaps ex r rt,
  nm_input_ok inp = true -> Inv inp route ->
  (u < length (nmi_units inp))%nat ->
  (forall s, In s (nm_unit inp u) -> ~ In s route) ->
  length gaps = length (nm_unit inp u) ->
  gaps_ok (S (length route)) 0 gaps = true ->
  nm_plan inp route (combine (nm_unit inp u) gaps) = (ex, r, rt) ->
  Inv inp rt /\ r <> NMError /\ (ex = true -> r = NMDone).
Proof.
  intros inp route u gaps ex r rt Hok HI Hu Hoff Hlen Hgaps H.
  pose proof HI as ([ds Hds] & _).
  unfold nm_plan in H. cbv zeta in H. rewrite Hds in H.
  destruct (nm_estimate_places true true (nd_first :: ds)
              (map (fun sg => (nm_item_of inp (fst sg), snd sg)) (combine (nm_unit inp u) gaps))) eqn:Hest.
  - injection H as <- <- <-. split; [exact HI|]. split; [discriminate|discriminate].
  - pose proof (plan_inv inp Hok route u gaps ds HI Hu Hoff Hlen Hgaps Hds Hest) as HI'.
    pose proof HI' as ([ds' Hds'] & _).
    rewrite Hds' in H. injection H as <- <- <-.
    split; [exact HI'|]. split; [discriminate|reflexivity].
Qed.

Lemma step_inv : forall inp route op o route',
  nm_input_ok inp = true -> Inv inp route ->
  nm_step inp route op = (o, route') ->
  Inv inp route' /\ out_is_error o = false /\ (forall r, o = OPlan true r -> r = NMDone).
Proof.
  intros inp route op o route' Hok HI H.
  destruct op as [u gaps|u]; unfold nm_step in H.
  - destruct (Nat.leb (length (nmi_units inp)) u || Nat.eqb (length (nm_unit inp u)) 0) eqn:E1.
    { injection H as <- <-. split; [exact HI|]. split; [reflexivity|discriminate]. }
    destruct (nm_on_route route (nm_unit inp u)) eqn:E2.
    { injection H as <- <-. split; [exact HI|]. split; [reflexivity|discriminate]. }
    destruct (negb (Nat.eqb (length gaps) (length (nm_unit inp u)))
              || negb (gaps_ok (S (length route)) 0 gaps)) eqn:E3.
    { injection H as <- <-. split; [exact HI|]. split; [reflexivity|discriminate]. }
    destruct (nm_plan inp route (combine (nm_unit inp u) gaps)) as [[ex r] rt] eqn:Hplan.
    injection H as <- <-.
    apply orb_false_elim in E1. destruct E1 as [E1 _].
    apply Nat.leb_gt in E1.
    apply orb_false_elim in E3. destruct E3 as [E3 E4].
    apply negb_false_iff in E3. apply Nat.eqb_eq in E3.
    apply negb_false_iff in E4.
    assert (Hoff : forall s, In s (nm_unit inp u) -> ~ In s route).
    { intros s Hs. unfold nm_on_route in E2.
      pose proof (existsb_false _ _ _ E2 s Hs) as Hf. cbv beta in Hf.
      apply (proj1 (inb_false route s)). exact Hf. }
    destruct (plan_step inp route u gaps ex r rt Hok HI E1 Hoff E3 E4 Hplan) as (HI' & Hne & Hex).
    split; [exact HI'|]. split.
    + destruct r; try reflexivity. congruence.
    + intros r' Hr'. injection Hr' as -> <-. apply Hex. reflexivity.
  - destruct (Nat.leb (length (nmi_units inp)) u || Nat.eqb (length (nm_unit inp u)) 0) eqn:E1.
    { injection H as <- <-. split; [exact HI|]. split; [reflexivity|discriminate]. }
    destruct (negb (nm_on_route route (nm_unit inp u))) eqn:E2.
    { injection H as <- <-. split; [exact HI|]. split; [reflexivity|discriminate]. }
    apply orb_false_elim in E1. destruct E1 as [E1 _].
    apply Nat.leb_gt in E1.
    pose proof (unplan_inv inp Hok route u HI E1) as HI'.
    pose proof HI' as ([ds' Hds'] & _).
    unfold nm_unplan in H. cbv zeta in H. unfold inb in Hds'. rewrite Hds' in H.
    injection H as <- <-.
    split; [exact HI'|]. split; [reflexivity|discriminate].
Qed.

Lemma history_inv : forall inp ops route,
  nm_input_ok inp = true -> Inv inp route ->
  forall o route', In (o, route') (nm_history inp route ops) ->
  Inv inp route' /\ out_is_error o = false /\ (forall r, o = OPlan true r -> r = NMDone).
Proof.
  intros inp. induction ops as [|op ops IH]; intros route Hok HI o route' Hin; [destruct Hin|].
  cbn [nm_history] in Hin.
  destruct (nm_step inp route op) as [o1 r1] eqn:Hstep.
  pose proof (step_inv _ _ _ _ _ Hok HI Hstep) as Hs.
  destruct Hin as [Heq|Hin].
  - injection Heq as <- <-. exact Hs.
  - apply (IH r1 Hok (proj1 Hs) o route' Hin).
Qed.

Theorem nm_history_never_errors : forall inp ops,
  nm_input_ok inp = true ->
  forallb (fun x => negb (out_is_error (fst x))) (nm_history inp [] ops) = true.
Proof.
  intros inp ops Hok. apply forallb_forall. intros [o route'] Hin.
  destruct (history_inv inp ops [] Hok (Inv_nil inp Hok) o route' Hin) as (_ & He & _).
  cbn [fst]. rewrite He. reflexivity.
Qed.

Theorem nm_history_executable_is_done : forall inp ops r route,
  nm_input_ok inp = true ->
  In (OPlan true r, route) (nm_history inp [] ops) -> r = NMDone.
Proof.
  intros inp ops r route Hok Hin.
  destruct (history_inv inp ops [] Hok (Inv_nil inp Hok) _ _ Hin) as (_ & _ & Hd).
  apply Hd. reflexivity.
Qed.

Theorem nm_history_routes_consistent : forall inp ops o route,
  nm_input_ok inp = true ->
  In (o, route) (nm_history inp [] ops) ->
  (exists ds, nm_run nd_first (nm_route_items inp route) = Some ds) /\
  NoDup route /\
  (forall u, (u < length (nmi_units inp))%nat ->
     (forall s, In s (nm_unit inp u) -> In s route) \/
     (forall s, In s (nm_unit inp u) -> ~ In s route)).
Proof.
  intros inp ops o route Hok Hin.
  destruct (history_inv inp ops [] Hok (Inv_nil inp Hok) _ _ Hin) as ((Ha & Hb & Hc & _) & _ & _).
  split; [exact Ha|]. split; [exact Hb|exact Hc].
Qed.
