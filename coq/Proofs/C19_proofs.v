(* Lemmas behind Props/C19.v: user constraints (in_user) are checked exactly.

   Also: the successor of a reachable state is reachable (reachable_step),
   used by C18 / C19. *)

From Coq Require Import List ZArith Bool Arith Lia Permutation Sorted.
From NR Require Import Model.Engine Proofs.Engine_lists Proofs.Engine_inv Proofs.Engine_spec.
Import ListNotations.
Open Scope Z_scope.

(* ================================================================== *)
(* Reachability is closed under well-formed steps                      *)
(* ================================================================== *)

Lemma run_in_extend (inp : input) :
  forall (h : list op) (s0 s : state) (o : op),
    fresh inp s0 h -> In s (run inp s0 h) -> op_ok inp s o ->
    exists h', fresh inp s0 h' /\ In (fst (step inp s o)) (run inp s0 h').
Proof.
  assert (Hbase : forall s0 o, op_ok inp s0 o ->
            exists h', fresh inp s0 h' /\ In (fst (step inp s0 o)) (run inp s0 h')).
  { intros s0 o Hok. exists [o]. cbn [fresh run]. split; [split; [exact Hok|exact I]|].
    right. left. reflexivity. }
  induction h as [|o1 h IH]; intros s0 s o Hfr Hin Hok; cbn [run fresh] in *.
  - destruct Hin as [<-|[]]. exact (Hbase s0 o Hok).
  - destruct Hfr as (Hok1 & Hfr). destruct Hin as [<-|Hin]; [exact (Hbase s0 o Hok)|].
    destruct (IH _ s o Hfr Hin Hok) as (h' & Hfr' & Hin').
    exists (o1 :: h'). cbn [fresh run]. split; [split; assumption|]. right. exact Hin'.
Qed.

Lemma reachable_step (inp : input) (s : state) (o : op) :
  reachable inp s -> op_ok inp s o -> reachable inp (fst (step inp s o)).
Proof.
  intros (s0 & h & Hns & Hfr & Hin) Hok.
  destruct (run_in_extend inp h s0 s o Hfr Hin Hok) as (h' & Hfr' & Hin').
  exists s0, h'. split; [exact Hns|]. split; assumption.
Qed.

Lemma reachable_exec (inp : input) (s s' : state) (mv : move) (r : result) :
  reachable inp s -> move_ok inp s mv -> exec_move inp s mv = (s', r) -> reachable inp s'.
Proof.
  intros Hr Hmv Hex. pose proof (reachable_step inp s (OpPlan mv) Hr Hmv) as H.
  cbn [step] in H. rewrite Hex in H. exact H.
Qed.

Lemma reachable_unplan (inp : input) (s s' : state) (u : nat) (r : result) :
  reachable inp s -> (u < nunits inp)%nat -> unplan_unit inp s u = (s', r) -> reachable inp s'.
Proof.
  intros Hr Hu Hex. pose proof (reachable_step inp s (OpUnplan u) Hr Hu) as H.
  cbn [step] in H. rewrite Hex in H. exact H.
Qed.

(* ================================================================== *)
(* What "no user violation" means                                      *)
(* ================================================================== *)

Lemma user_violation_none (inp : input) (temporal : bool) (c : cell) :
  forall (us : list uatom) (i : nat),
    user_violation inp temporal c i us = None ->
    forall a, In a us ->
      (temporal = true \/ ua_temporal a = false) ->
      (ua_vehicle_level a = false \/ is_last_stop inp (c_stop c) = true) ->
      ufield_value inp c (ua_field a) <= ua_max a.
Proof.
  induction us as [|b us IH]; intros i H a Hin Ht Hl; [destruct Hin|].
  cbn [user_violation] in H.
  destruct ((temporal || negb (ua_temporal b)) &&
            (negb (ua_vehicle_level b) || is_last_stop inp (c_stop c)) &&
            (ua_max b <? ufield_value inp c (ua_field b))) eqn:E; [discriminate|].
  destruct Hin as [->|Hin]; [|exact (IH (S i) H a Hin Ht Hl)].
  assert (E1 : temporal || negb (ua_temporal a) = true).
  { destruct Ht as [-> | ->]; [reflexivity|apply orb_true_r]. }
  assert (E2 : negb (ua_vehicle_level a) || is_last_stop inp (c_stop c) = true).
  { destruct Hl as [-> | ->]; [reflexivity|apply orb_true_r]. }
  rewrite E1, E2 in E. cbn [andb] in E. apply Z.ltb_ge in E. exact E.
Qed.

(* the index returned is that of the FIRST atom whose check applies and fails *)
Lemma user_violation_some (inp : input) (temporal : bool) (c : cell) :
  forall (us : list uatom) (i j : nat),
    user_violation inp temporal c i us = Some j ->
    (i <= j)%nat /\
    exists a, nth_error us (j - i) = Some a /\
      (temporal = true \/ ua_temporal a = false) /\
      (ua_vehicle_level a = false \/ is_last_stop inp (c_stop c) = true) /\
      ua_max a < ufield_value inp c (ua_field a) /\
      user_violation inp temporal c i (firstn (j - i) us) = None.
Proof.
  induction us as [|b us IH]; intros i j H; [discriminate|].
  cbn [user_violation] in H.
  destruct ((temporal || negb (ua_temporal b)) &&
            (negb (ua_vehicle_level b) || is_last_stop inp (c_stop c)) &&
            (ua_max b <? ufield_value inp c (ua_field b))) eqn:E.
  - injection H as <-. split; [lia|]. rewrite Nat.sub_diag. exists b.
    apply andb_true_iff in E. destruct E as (E & E3).
    apply andb_true_iff in E. destruct E as (E1 & E2).
    split; [reflexivity|]. split; [|split; [|split]].
    + apply orb_true_iff in E1. destruct E1 as [E1|E1]; [left; exact E1|right].
      apply negb_true_iff in E1. exact E1.
    + apply orb_true_iff in E2. destruct E2 as [E2|E2]; [left|right; exact E2].
      apply negb_true_iff in E2. exact E2.
    + apply Z.ltb_lt in E3. exact E3.
    + reflexivity.
  - destruct (IH (S i) j H) as (Hle & a & Hn & Ht & Hl & Hv & Hpre).
    split; [lia|]. exists a.
    replace (j - i)%nat with (S (j - S i)) by lia. cbn [nth_error firstn user_violation].
    rewrite E. auto.
Qed.

Lemma stop_violation_user_none (inp : input) (v : nat) (c : cell) :
  stop_violation inp v true c = None -> user_violation inp true c 0 (in_user inp) = None.
Proof.
  unfold stop_violation. destruct (builtin_violation inp v true c); [discriminate|].
  destruct (user_violation inp true c 0 (in_user inp)); [discriminate|reflexivity].
Qed.

Lemma stop_violation_user_some (inp : input) (v : nat) (t : bool) (c : cell) (i : nat) :
  stop_violation inp v t c = Some (KUser i) -> user_violation inp t c 0 (in_user inp) = Some i.
Proof.
  unfold stop_violation. destruct (builtin_violation inp v t c) as [k|] eqn:Eb.
  - intros H. injection H as ->. exfalso. revert Eb. unfold builtin_violation. cbv zeta.
    repeat match goal with
           | |- context [match ?X with Some _ => _ | None => _ end] => destruct X
           | |- context [if ?X then _ else _] => destruct X
           end; discriminate.
  - destruct (user_violation inp t c 0 (in_user inp)); [|discriminate].
    intros H. injection H as ->. reflexivity.
Qed.

Theorem C19_user_violation_none_proof : forall inp,
  (forall temporal c i us,
     user_violation inp temporal c i us = None ->
     forall a, In a us ->
       (temporal = true \/ ua_temporal a = false) ->
       (ua_vehicle_level a = false \/ is_last_stop inp (c_stop c) = true) ->
       ufield_value inp c (ua_field a) <= ua_max a) /\
  (forall v c, stop_violation inp v true c = None ->
               user_violation inp true c 0 (in_user inp) = None).
Proof.
  intros inp. split.
  - intros temporal c i us. apply user_violation_none.
  - apply stop_violation_user_none.
Qed.

Theorem C19_user_violation_some_proof : forall inp v temporal c i,
  stop_violation inp v temporal c = Some (KUser i) ->
  exists a, nth_error (in_user inp) i = Some a /\
    (temporal = true \/ ua_temporal a = false) /\
    (ua_vehicle_level a = false \/ is_last_stop inp (c_stop c) = true) /\
    ua_max a < ufield_value inp c (ua_field a).
Proof.
  intros inp v t c i H. apply stop_violation_user_some in H.
  destruct (user_violation_some inp t c _ 0%nat i H) as (_ & a & Hn & Ht & Hl & Hv & _).
  rewrite Nat.sub_0_r in Hn. exists a. auto.
Qed.

(* ================================================================== *)
(* Every reachable state satisfies every user constraint               *)
(* ================================================================== *)

Lemma user_atoms_hold (inp : input) (s : state) (v : nat) (c : cell) (a : uatom) :
  InvT inp s -> (v < nveh inp)%nat -> In c (tl (get_route s v)) -> In a (in_user inp) ->
  (ua_vehicle_level a = false \/ is_last_stop inp (c_stop c) = true) ->
  ufield_value inp c (ua_field a) <= ua_max a.
Proof.
  intros HI Hv Hc Ha Hl.
  pose proof (route_cell_ok inp s v c HI Hv Hc) as Hok.
  apply stop_violation_user_none in Hok.
  exact (user_violation_none inp true c _ _ Hok a Ha (or_introl eq_refl) Hl).
Qed.

Theorem C19_never_violated_proof : forall inp s v a,
  wf_input inp -> reachable inp s -> (v < nveh inp)%nat -> In a (in_user inp) ->
  (* a stop-level atom holds at every non-first cell *)
  (ua_vehicle_level a = false ->
     forall c, In c (tl (get_route s v)) -> ufield_value inp c (ua_field a) <= ua_max a) /\
  (* any atom holds at a cell of a vehicle's last stop ... *)
  (forall c, In c (tl (get_route s v)) -> is_last_stop inp (c_stop c) = true ->
     ufield_value inp c (ua_field a) <= ua_max a) /\
  (* ... in particular at the last cell of the route *)
  ufield_value inp (last_cell (get_route s v)) (ua_field a) <= ua_max a.
Proof.
  intros inp s v a Hwf Hr Hv Ha. pose proof (reachable_invT inp s Hwf Hr) as HI.
  split; [|split].
  - intros Hlv c Hc. exact (user_atoms_hold inp s v c a HI Hv Hc Ha (or_introl Hlv)).
  - intros c Hc Hl. exact (user_atoms_hold inp s v c a HI Hv Hc Ha (or_intror Hl)).
  - destruct (last_cell_props inp s v HI Hv) as (Hin & Hst).
    apply (user_atoms_hold inp s v _ a HI Hv Hin Ha). right.
    rewrite Hst. apply is_last_stop_last.
Qed.

(* ================================================================== *)
(* A rejection restores the state                                      *)
(* ================================================================== *)

Theorem C19_rejection_restores_proof : forall inp s,
  wf_input inp -> reachable inp s ->
  (forall mv s' i, move_ok inp s mv -> exec_move inp s mv = (s', Rejected (KUser i)) ->
     same_obs s' s) /\
  (forall u s' i, (u < nunits inp)%nat -> unplan_unit inp s u = (s', Rejected (KUser i)) ->
     same_obs s' s) /\
  (forall mv s' r, move_ok inp s mv -> exec_move inp s mv = (s', r) -> r <> Done ->
     same_obs s' s) /\
  (forall u s' r, (u < nunits inp)%nat -> unplan_unit inp s u = (s', r) -> r <> Done ->
     same_obs s' s).
Proof.
  intros inp s Hwf Hr. pose proof (reachable_invT inp s Hwf Hr) as HI.
  assert (A : forall mv s' r, move_ok inp s mv -> exec_move inp s mv = (s', r) -> r <> Done ->
                same_obs s' s).
  { intros mv s' r Hmv Hex Hne.
    exact (proj1 (exec_move_all_or_nothing inp s s' mv r Hwf (proj1 HI) Hmv Hex) Hne). }
  assert (B : forall u s' r, (u < nunits inp)%nat -> unplan_unit inp s u = (s', r) -> r <> Done ->
                same_obs s' s).
  { intros u s' r Hu Hex Hne.
    exact (proj1 (unplan_unit_all_or_nothingT inp s s' u r Hwf HI Hu Hex) Hne). }
  split; [|split; [|split; [exact A|exact B]]].
  - intros mv s' i Hmv Hex. apply (A mv s' _ Hmv Hex). discriminate.
  - intros u s' i Hu Hex. apply (B u s' _ Hu Hex). discriminate.
Qed.

(* ================================================================== *)
(* Done only if every user atom holds on the new solution              *)
(* ================================================================== *)

Theorem C19_optimistic_estimate_is_safe_proof : forall inp s mv s1,
  wf_input inp -> reachable inp s -> move_ok inp s mv ->
  exec_move inp s mv = (s1, Done) ->
  reachable inp s1 /\
  forall v a, (v < nveh inp)%nat -> In a (in_user inp) ->
    (ua_vehicle_level a = false ->
       forall c, In c (tl (get_route s1 v)) -> ufield_value inp c (ua_field a) <= ua_max a) /\
    ufield_value inp (last_cell (get_route s1 v)) (ua_field a) <= ua_max a.
Proof.
  intros inp s mv s1 Hwf Hr Hmv Hex.
  pose proof (reachable_exec inp s s1 mv Done Hr Hmv Hex) as Hr1.
  split; [exact Hr1|]. intros v a Hv Ha.
  destruct (C19_never_violated_proof inp s1 v a Hwf Hr1 Hv Ha) as (A & _ & C).
  split; assumption.
Qed.

(* ================================================================== *)
(* A rejection by user constraint i is genuine                         *)
(* ================================================================== *)

Lemma propagate_inr (inp : input) (v : nat) (t : bool) :
  forall (rest : list nat) (p : cell) (k : cons_id),
    propagate inp v t p rest = inr k ->
    exists c, In c (cells_from inp v p rest) /\ stop_violation inp v t c = Some k.
Proof.
  induction rest as [|x rest IH]; intros p k H; cbn [propagate cells_from] in *; [discriminate|].
  destruct (stop_violation inp v t (next_cell inp v p x)) as [k'|] eqn:Ev.
  - injection H as <-. exists (next_cell inp v p x). split; [left; reflexivity|exact Ev].
  - destruct (propagate inp v t (next_cell inp v p x) rest) as [cs|k'] eqn:Ep; [discriminate|].
    injection H as <-. destruct (IH _ _ Ep) as (c & Hc & Hv). exists c. split; [right; exact Hc|exact Hv].
Qed.

(* a rejected is_feasible found its violation on a cell of the candidate
   route recomputed from scratch *)
Lemma is_feasible_inr (inp : input) (s : state) (v idx : nat)
      (old_stops new_stops : list nat) (t : bool) (k : cons_id) :
  get_route s v = from_scratch inp v old_stops ->
  new_stops <> [] ->
  firstn (S idx) new_stops = firstn (S idx) old_stops ->
  is_feasible inp s v idx new_stops t = inr k ->
  exists c, In c (tl (from_scratch inp v new_stops)) /\ stop_violation inp v t c = Some k.
Proof.
  intros Hroute Hne Hpre H.
  unfold is_feasible in H. rewrite Hroute in H.
  assert (Hp : firstn (S idx) (from_scratch inp v old_stops)
               = firstn (S idx) (from_scratch inp v new_stops)).
  { rewrite !from_scratch_firstn, Hpre. reflexivity. }
  rewrite Hp in H.
  pose proof (from_scratch_split inp v idx new_stops Hne) as Hsplit.
  set (pre := firstn (S idx) (from_scratch inp v new_stops)) in *.
  destruct (propagate inp v t (last_cell pre) (skipn (S idx) new_stops)) as [cs|k'] eqn:Ep;
    [discriminate|].
  injection H as ->. destruct (propagate_inr inp v t _ _ _ Ep) as (c & Hc & Hv).
  exists c. split; [|exact Hv]. rewrite Hsplit.
  destruct new_stops as [|x r]; [congruence|].
  unfold pre. cbn [from_scratch firstn app tl]. apply in_or_app. right. exact Hc.
Qed.

Theorem C19_rejection_is_genuine_proof : forall inp s mv s' i,
  wf_input inp -> reachable inp s -> move_ok inp s mv ->
  exec_move inp s mv = (s', Rejected (KUser i)) ->
  exists a c,
    nth_error (in_user inp) i = Some a /\
    In c (tl (from_scratch inp (mv_vehicle mv)
                 (insert_places 0 (route_stops (get_route s (mv_vehicle mv))) (mv_places mv)))) /\
    (ua_vehicle_level a = false \/ is_last_stop inp (c_stop c) = true) /\
    ua_max a < ufield_value inp c (ua_field a).
Proof.
  intros inp s mv s' i Hwf Hr Hmv Hex.
  pose proof (reachable_invT inp s Hwf Hr) as HI.
  pose proof HI as ((Hc & Hf & _) & _).
  destruct Hmv as (Hu & Hv & Hperm & Hne & Hsorted & Hgaps).
  unfold exec_move in Hex. cbv zeta in Hex.
  destruct (unit_planned inp s (mv_unit mv)); [discriminate|].
  set (v := mv_vehicle mv) in *. set (places := mv_places mv) in *.
  destruct Hc as (Hlen & Hc').
  destruct (Hc' v Hv) as ((mid & Hold & Hmid) & Hcache).
  set (old_stops := route_stops (get_route s v)) in *.
  assert (Hlenold : length (get_route s v) = S (length mid + 1)).
  { rewrite <- length_route_stops. fold old_stops. rewrite Hold. cbn [length].
    rewrite app_length. cbn [length]. lia. }
  assert (Hg : Forall (fun p => (1 <= snd p /\ snd p <= 1 + length mid)%nat) places).
  { rewrite Forall_map in Hgaps. eapply Forall_impl; [|exact Hgaps]. cbv beta. intros p.
    rewrite Hlenold. lia. }
  set (new_stops := insert_places 0 old_stops places) in *.
  assert (Hnn : new_stops <> []).
  { unfold new_stops. rewrite Hold. cbn [insert_places]. intros E.
    apply app_eq_nil in E. destruct E as (_ & E). discriminate. }
  assert (Hfg : (1 <= first_gap places /\ first_gap places <= 1 + length mid)%nat).
  { destruct places as [|[x g] rest]; [congruence|]. inversion Hg; subst. cbn in *. assumption. }
  assert (Hpre : firstn (S (first_gap places - 1)) new_stops
                 = firstn (S (first_gap places - 1)) old_stops).
  { replace (S (first_gap places - 1)) with (first_gap places) by lia.
    unfold new_stops. apply insert_places_firstn.
    - rewrite Hold. cbn [length]. rewrite app_length. cbn [length]. lia.
    - cbn [Nat.add]. apply first_gap_le_all. exact Hsorted. }
  match type of Hex with (match ?X with _ => _ end) = _ => destruct X as [s2|k] eqn:E1 end;
    [discriminate|].
  assert (Hk : k = KUser i).
  { match type of Hex with (match ?X with _ => _ end) = _ => destruct X end;
      [injection Hex as _ ->; reflexivity|discriminate]. }
  subst k.
  match type of E1 with is_feasible inp ?a v ?ix new_stops true = _ =>
    destruct (is_feasible_inr inp a v ix old_stops new_stops true (KUser i)
                Hcache Hnn Hpre E1) as (c & Hcin & Hviol) end.
  destruct (C19_user_violation_some_proof inp v true c i Hviol) as (a & Hn & _ & Hl & Hlt).
  exists a, c. auto.
Qed.

(* ================================================================== *)
(* Non-vacuity: an input with a user constraint                        *)
(* ================================================================== *)

(* like ex_inp (2 stops, 1 vehicle, one unit per stop) with capacity 2 and the
   user constraint "position <= 2 at every stop".  The empty route is
   [first; last] (positions 0, 1); with one stop planned the vehicle's last
   stop sits at position 2; a second stop would push it to position 3. *)
Definition ex19_inp : input :=
  mkInput [mkUAtom UPos 2 false false]
          [mkIStop [(-1)%Z] 10%Z [] None 100%Z [] None 0%Z 0%Z; mkIStop [(-1)%Z] 10%Z [] None 100%Z [] None 0%Z 0%Z]
          [mkIVehicle (Some [2%Z]) [0%Z] 0%Z None None None None None [] 0%Z true true 0%Z 0%Z 1%Z 1%Z]
          [mkIUnit [0%nat] []; mkIUnit [1%nat] []]
          ex_mat ex_mat 1 ex_opts [].
Definition ex19_s0 : state :=
  Eval vm_compute in match new_solution ex19_inp with Some s => s | None => ex_dummy end.
Definition ex19_mv1 : move := mkMove 0 0 [(0, 1)]%nat.
Definition ex19_mv2 : move := mkMove 1 0 [(1, 2)]%nat.
Definition ex19_s1 : state := Eval vm_compute in fst (exec_move ex19_inp ex19_s0 ex19_mv1).

Example ex19_wf : wf_input ex19_inp.
Proof.
  split; [|split; [|split; [|split; [exact (Forall_nil _)|mult_wf]]]].
  - vm_compute. constructor; [simpl; lia|]. constructor; [simpl; tauto|constructor].
  - intros x. vm_compute. lia.
  - intros u Hu. vm_compute in Hu. destruct Hu as [<-|[<-|[]]]; discriminate.
Qed.

Example ex19_new : new_solution ex19_inp = Some ex19_s0.
Proof. vm_compute. reflexivity. Qed.

Example ex19_move1_ok : move_ok ex19_inp ex19_s0 ex19_mv1.
Proof.
  unfold move_ok. vm_compute.
  split; [lia|]. split; [lia|]. split; [apply Permutation_refl|]. split; [discriminate|].
  split; repeat constructor.
Qed.

Example ex19_move1_done : exec_move ex19_inp ex19_s0 ex19_mv1 = (ex19_s1, Done).
Proof. vm_compute. reflexivity. Qed.

Example ex19_move2_ok : move_ok ex19_inp ex19_s1 ex19_mv2.
Proof.
  unfold move_ok. vm_compute.
  split; [lia|]. split; [lia|]. split; [apply Permutation_refl|]. split; [discriminate|].
  split; repeat constructor.
Qed.

(* the second stop is refused by the user constraint (index 0), nothing else
   objects (capacity 2 is enough), and the state is exactly the old one *)
Example ex19_move2_rejected :
  exec_move ex19_inp ex19_s1 ex19_mv2 = (ex19_s1, Rejected (KUser 0)).
Proof. vm_compute. reflexivity. Qed.

Example ex19_reachable_s1 : reachable ex19_inp ex19_s1.
Proof.
  exact (reachable_exec ex19_inp ex19_s0 ex19_s1 ex19_mv1 Done
           (reachable_start ex19_inp ex19_s0 ex19_new) ex19_move1_ok ex19_move1_done).
Qed.

(* the theorems apply to the run *)
Example ex19_genuine :
  exists a c, nth_error (in_user ex19_inp) 0 = Some a /\
    In c (tl (from_scratch ex19_inp 0 [2; 0; 1; 3]%nat)) /\
    (ua_vehicle_level a = false \/ is_last_stop ex19_inp (c_stop c) = true) /\
    ua_max a < ufield_value ex19_inp c (ua_field a).
Proof.
  exact (C19_rejection_is_genuine_proof ex19_inp ex19_s1 ex19_mv2 ex19_s1 0 ex19_wf
           ex19_reachable_s1 ex19_move2_ok ex19_move2_rejected).
Qed.

Example ex19_positions :
  map c_pos (get_route ex19_s1 0) = [0; 1; 2]%nat /\
  forall c, In c (tl (get_route ex19_s1 0)) -> Z.of_nat (c_pos c) <= 2.
Proof.
  split; [vm_compute; reflexivity|]. intros c Hc.
  assert (Hv : (0 < nveh ex19_inp)%nat) by (vm_compute; lia).
  destruct (C19_never_violated_proof ex19_inp ex19_s1 0 (mkUAtom UPos 2 false false)
              ex19_wf ex19_reachable_s1 Hv (or_introl eq_refl)) as (H & _).
  exact (H eq_refl c Hc).
Qed.

Example C19_example_rejected_proof :
  in_user ex19_inp = [mkUAtom UPos 2 false false] /\
  exec_move ex19_inp ex19_s0 ex19_mv1 = (ex19_s1, Done) /\
  move_ok ex19_inp ex19_s1 ex19_mv2 /\
  exec_move ex19_inp ex19_s1 ex19_mv2 = (ex19_s1, Rejected (KUser 0)).
Proof. exact (conj eq_refl (conj ex19_move1_done (conj ex19_move2_ok ex19_move2_rejected))). Qed.

Print Assumptions C19_user_violation_none_proof.
Print Assumptions C19_user_violation_some_proof.
Print Assumptions C19_never_violated_proof.
Print Assumptions C19_rejection_restores_proof.
Print Assumptions C19_optimistic_estimate_is_safe_proof.
Print Assumptions C19_rejection_is_genuine_proof.
Print Assumptions ex19_move2_rejected.
Print Assumptions ex19_genuine.
