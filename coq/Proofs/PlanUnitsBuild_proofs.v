(* Proofs about the grouping of precedence relations into plan units
   (Model/PlanUnitsBuild.v). *)

From Coq Require Import List Arith Bool Lia Permutation.
Import ListNotations.
From NR.Model Require Import PlanUnitsBuild.


(* ------------------------------------------------------------------ *)
(* Vocabulary                                                          *)
(* ------------------------------------------------------------------ *)

(* x is the predecessor or the successor of some relation of l *)
Definition endpoint (l : list seqt) (x : nat) : Prop :=
  exists p s d, In (p, s, d) l /\ (x = p \/ x = s).

(* stop x is in the stop list of slice element i *)
Definition in_unit (units : list uinfo) (i x : nat) : Prop :=
  exists u, nth_error units i = Some u /\ In x (ui_stops u).

Definition unit_ok (u : uinfo) : Prop :=
  NoDup (ui_stops u) /\ ui_stops u <> [] /\ ui_seqs u <> [] /\
  (forall x, In x (ui_stops u) <-> endpoint (ui_seqs u) x).

Definition wf_state (units : list uinfo) (m : smap) : Prop :=
  (forall s i, lookup m s = Some i ->
     i < length units /\ exists u, nth_error units i = Some u /\ In s (ui_stops u)) /\
  (forall i u s, nth_error units i = Some u -> In s (ui_stops u) -> lookup m s = Some i) /\
  Forall unit_ok units.

(* all stops of a unit are connected by the relations of that unit *)
Definition unit_conn (u : uinfo) : Prop :=
  forall x y, In x (ui_stops u) -> In y (ui_stops u) -> connected (ui_seqs u) x y.

Definition allseqs (units : list uinfo) : list seqt := concat (map ui_seqs units).

(* map and slice agree *)
Definition agree (units : list uinfo) (m : smap) : Prop :=
  forall x i, lookup m x = Some i <-> in_unit units i x.

Lemma wf_state_agree : forall units m,
  wf_state units m <-> (agree units m /\ Forall unit_ok units).
Proof.
  intros units m. unfold wf_state, agree, in_unit. split.
  - intros (H1 & H2 & H3). split; [|exact H3].
    intros x i. split.
    + intros HL. apply H1 in HL. destruct HL as (_ & HL). exact HL.
    + intros (u & Hn & Hin). eapply H2; eauto.
  - intros (HA & H3). split; [|split; [|exact H3]].
    + intros s i HL. apply HA in HL. destruct HL as (u & Hn & Hin).
      split; [|eauto]. apply nth_error_Some. congruence.
    + intros i u s Hn Hin. apply HA. eauto.
Qed.

(* ------------------------------------------------------------------ *)
(* lookup / set_in                                                     *)
(* ------------------------------------------------------------------ *)

Lemma lookup_set_in : forall m k v x,
  lookup (set_in m k v) x = if Nat.eqb k x then Some v else lookup m x.
Proof. reflexivity. Qed.

Lemma lookup_fold_set_notin : forall l m k x,
  ~ In x l ->
  lookup (fold_left (fun mm s => set_in mm s k) l m) x = lookup m x.
Proof.
  induction l as [|a l IH]; intros m k x Hni; simpl.
  - reflexivity.
  - rewrite IH by (intros HC; apply Hni; right; exact HC).
    rewrite lookup_set_in.
    destruct (Nat.eqb_spec a x) as [E|E]; [|reflexivity].
    exfalso. apply Hni. left. exact E.
Qed.

Lemma lookup_fold_set_in : forall l m k x,
  In x l ->
  lookup (fold_left (fun mm s => set_in mm s k) l m) x = Some k.
Proof.
  induction l as [|a l IH]; intros m k x Hin; simpl.
  - destruct Hin.
  - destruct (in_dec Nat.eq_dec x l) as [Hl|Hl].
    + apply IH. exact Hl.
    + destruct Hin as [E|Hin]; [|contradiction].
      rewrite lookup_fold_set_notin by exact Hl.
      rewrite lookup_set_in. subst a. rewrite Nat.eqb_refl. reflexivity.
Qed.

(* ------------------------------------------------------------------ *)
(* add_stop                                                            *)
(* ------------------------------------------------------------------ *)

Lemma existsb_eqb_In : forall s l, existsb (Nat.eqb s) l = true <-> In s l.
Proof.
  intros s l. rewrite existsb_exists. split.
  - intros (y & Hy & E). apply Nat.eqb_eq in E. subst y. exact Hy.
  - intros H. exists s. split; [exact H|apply Nat.eqb_refl].
Qed.

Lemma in_add_stop : forall l s x, In x (add_stop l s) <-> In x l \/ x = s.
Proof.
  intros l s x. unfold add_stop.
  destruct (existsb (Nat.eqb s) l) eqn:E.
  - apply existsb_eqb_In in E. split.
    + intros H. left. exact H.
    + intros [H|H]; [exact H|subst x; exact E].
  - rewrite in_app_iff. simpl. split.
    + intros [H|[H|[]]]; [left; exact H|right; symmetry; exact H].
    + intros [H|H]; [left; exact H|right; left; symmetry; exact H].
Qed.

Lemma NoDup_add_stop : forall l s, NoDup l -> NoDup (add_stop l s).
Proof.
  intros l s Hnd. unfold add_stop.
  destruct (existsb (Nat.eqb s) l) eqn:E; [exact Hnd|].
  assert (Hni : ~ In s l).
  { intros HC. apply existsb_eqb_In in HC. congruence. }
  clear E. induction l as [|a l IH]; simpl.
  - constructor; [intros []|constructor].
  - inversion Hnd as [|a' l' Ha Hl]; subst.
    constructor.
    + rewrite in_app_iff. simpl. intros [HC|[HC|[]]].
      * contradiction.
      * apply Hni. left. symmetry. exact HC.
    + apply IH; [exact Hl|]. intros HC. apply Hni. right. exact HC.
Qed.

Lemma in_fold_add_stop : forall l2 l1 x,
  In x (fold_left add_stop l2 l1) <-> In x l1 \/ In x l2.
Proof.
  induction l2 as [|a l2 IH]; intros l1 x; simpl.
  - tauto.
  - rewrite IH, in_add_stop. split.
    + intros [[H|H]|H]; [left; exact H|right; left; symmetry; exact H|right; right; exact H].
    + intros [H|[H|H]]; [left; left; exact H|left; right; symmetry; exact H|right; exact H].
Qed.

Lemma NoDup_fold_add_stop : forall l2 l1, NoDup l1 -> NoDup (fold_left add_stop l2 l1).
Proof.
  induction l2 as [|a l2 IH]; intros l1 Hnd; simpl.
  - exact Hnd.
  - apply IH. apply NoDup_add_stop. exact Hnd.
Qed.

(* ------------------------------------------------------------------ *)
(* update_nth / remove_nth                                             *)
(* ------------------------------------------------------------------ *)

Lemma nth_error_update_eq : forall A (l : list A) i x,
  i < length l -> nth_error (update_nth l i x) i = Some x.
Proof.
  induction l as [|h t IH]; intros i x Hlt; simpl in *.
  - lia.
  - destruct i as [|k]; simpl; [reflexivity|]. apply IH. lia.
Qed.

Lemma nth_error_update_neq : forall A (l : list A) i j x,
  i <> j -> nth_error (update_nth l i x) j = nth_error l j.
Proof.
  induction l as [|h t IH]; intros i j x Hne; simpl.
  - reflexivity.
  - destruct i as [|k]; destruct j as [|j']; simpl; try reflexivity.
    + lia.
    + apply IH. lia.
Qed.

Lemma nth_error_remove_lt : forall A (l : list A) i j,
  j < i -> nth_error (remove_nth l i) j = nth_error l j.
Proof.
  induction l as [|h t IH]; intros i j Hlt; simpl.
  - reflexivity.
  - destruct i as [|k]; [lia|].
    destruct j as [|j']; simpl; [reflexivity|]. apply IH. lia.
Qed.

Lemma nth_error_remove_ge : forall A (l : list A) i j,
  i <= j -> nth_error (remove_nth l i) j = nth_error l (S j).
Proof.
  induction l as [|h t IH]; intros i j Hle; simpl.
  - destruct j; reflexivity.
  - destruct i as [|k]; [reflexivity|].
    destruct j as [|j']; [lia|]. simpl. apply IH. lia.
Qed.

Lemma Forall_update_nth : forall A (P : A -> Prop) (l : list A) i x,
  Forall P l -> P x -> Forall P (update_nth l i x).
Proof.
  induction l as [|h t IH]; intros i x HF Hx; simpl.
  - constructor.
  - inversion HF; subst. destruct i as [|k]; constructor; auto.
Qed.

Lemma Forall_remove_nth : forall A (P : A -> Prop) (l : list A) i,
  Forall P l -> Forall P (remove_nth l i).
Proof.
  induction l as [|h t IH]; intros i HF; simpl.
  - constructor.
  - inversion HF; subst. destruct i as [|k]; [assumption|constructor; auto].
Qed.

Lemma Forall_nth_error : forall A (P : A -> Prop) (l : list A) i x,
  Forall P l -> nth_error l i = Some x -> P x.
Proof.
  intros A P l i x HF Hn. rewrite Forall_forall in HF. apply HF.
  eapply nth_error_In; eauto.
Qed.

(* ------------------------------------------------------------------ *)
(* allseqs                                                             *)
(* ------------------------------------------------------------------ *)

Lemma allseqs_remove : forall l i u,
  nth_error l i = Some u ->
  Permutation (allseqs l) (ui_seqs u ++ allseqs (remove_nth l i)).
Proof.
  unfold allseqs.
  induction l as [|h t IH]; intros i u Hn.
  - destruct i; discriminate.
  - destruct i as [|k]; simpl in *.
    + injection Hn as ->. apply Permutation_refl.
    + specialize (IH k u Hn).
      eapply Permutation_trans.
      * apply Permutation_app_head. exact IH.
      * rewrite !app_assoc. apply Permutation_app_tail. apply Permutation_app_comm.
Qed.

Lemma allseqs_update : forall l i u u',
  nth_error l i = Some u ->
  Permutation (allseqs (update_nth l i u')) (ui_seqs u' ++ allseqs (remove_nth l i)).
Proof.
  unfold allseqs.
  induction l as [|h t IH]; intros i u u' Hn.
  - destruct i; discriminate.
  - destruct i as [|k]; simpl in *.
    + apply Permutation_refl.
    + specialize (IH k u u' Hn).
      eapply Permutation_trans.
      * apply Permutation_app_head. exact IH.
      * rewrite !app_assoc. apply Permutation_app_tail. apply Permutation_app_comm.
Qed.

Lemma allseqs_app : forall l1 l2, allseqs (l1 ++ l2) = allseqs l1 ++ allseqs l2.
Proof.
  intros l1 l2. unfold allseqs. rewrite map_app, concat_app. reflexivity.
Qed.

Lemma in_allseqs : forall units q,
  In q (allseqs units) <-> exists u, In u units /\ In q (ui_seqs u).
Proof.
  intros units q. unfold allseqs. rewrite in_concat. split.
  - intros (l & Hl & Hq). apply in_map_iff in Hl. destruct Hl as (u & <- & Hu). eauto.
  - intros (u & Hu & Hq). exists (ui_seqs u). split; [apply in_map; exact Hu|exact Hq].
Qed.

(* ------------------------------------------------------------------ *)
(* connected                                                           *)
(* ------------------------------------------------------------------ *)

Lemma conn_mono : forall l l' x y,
  (forall q, In q l -> In q l') -> connected l x y -> connected l' x y.
Proof.
  intros l l' x y Hincl Hc. induction Hc as [x|x y z d He _ IH].
  - apply conn_refl.
  - apply conn_step with (y := y) (d := d); [|exact IH].
    destruct He as [He|He]; [left|right]; apply Hincl; exact He.
Qed.

Lemma conn_trans : forall l x y z,
  connected l x y -> connected l y z -> connected l x z.
Proof.
  intros l x y z Hxy Hyz. induction Hxy as [x|x y w d He _ IH].
  - exact Hyz.
  - apply conn_step with (y := y) (d := d); [exact He|]. apply IH. exact Hyz.
Qed.

Lemma conn_edge : forall l x y d,
  In (x, y, d) l \/ In (y, x, d) l -> connected l x y.
Proof.
  intros l x y d He. apply conn_step with (y := y) (d := d); [exact He|apply conn_refl].
Qed.

Lemma conn_sym : forall l x y, connected l x y -> connected l y x.
Proof.
  intros l x y Hc. induction Hc as [x|x y z d He _ IH].
  - apply conn_refl.
  - eapply conn_trans; [exact IH|].
    apply conn_edge with (d := d). destruct He as [He|He]; [right|left]; exact He.
Qed.

Lemma conn_via_anchor : forall l (st : list nat) a,
  (forall x, In x st -> connected l a x) ->
  forall x y, In x st -> In y st -> connected l x y.
Proof.
  intros l st a Ha x y Hx Hy.
  eapply conn_trans; [apply conn_sym; apply Ha; exact Hx|apply Ha; exact Hy].
Qed.

(* connected stops have the same value under any labelling that every
   relation respects *)
Lemma conn_class : forall (f : nat -> nat) l,
  (forall p s d, In (p, s, d) l -> f p = f s) ->
  forall x y, connected l x y -> f x = f y.
Proof.
  intros f l Hf x y Hc. induction Hc as [x|x y z d He _ IH].
  - reflexivity.
  - rewrite <- IH. destruct He as [He|He]; [|symmetry]; eapply Hf; exact He.
Qed.

(* ------------------------------------------------------------------ *)
(* endpoint                                                            *)
(* ------------------------------------------------------------------ *)

Lemma endpoint_app : forall l1 l2 x,
  endpoint (l1 ++ l2) x <-> endpoint l1 x \/ endpoint l2 x.
Proof.
  intros l1 l2 x. unfold endpoint. split.
  - intros (p & s & d & Hin & Hx). apply in_app_iff in Hin.
    destruct Hin as [Hin|Hin]; [left|right]; exists p, s, d; auto.
  - intros [(p & s & d & Hin & Hx)|(p & s & d & Hin & Hx)];
      exists p, s, d; (split; [apply in_app_iff; auto|exact Hx]).
Qed.

Lemma endpoint_one : forall p s d x, endpoint [(p, s, d)] x <-> x = p \/ x = s.
Proof.
  intros p s d x. unfold endpoint. split.
  - intros (p' & s' & d' & [E|[]] & Hx). injection E as -> -> ->. exact Hx.
  - intros Hx. exists p, s, d. split; [left; reflexivity|exact Hx].
Qed.

(* ------------------------------------------------------------------ *)
(* Unit-level preservation                                             *)
(* ------------------------------------------------------------------ *)

Lemma app_one_not_nil : forall A (l : list A) x, l ++ [x] <> [].
Proof. intros A l x HC. apply app_eq_nil in HC. destruct HC as (_ & HC). discriminate. Qed.

Lemma in_not_nil : forall A (l : list A) x, In x l -> l <> [].
Proof. intros A l x Hin HC. subst l. destruct Hin. Qed.

(* attach one relation to a unit *)
Lemma unit_ok_extend : forall u p s d st',
  unit_ok u -> NoDup st' ->
  (forall x, In x st' <-> In x (ui_stops u) \/ x = p \/ x = s) ->
  unit_ok (mkUInfo st' (ui_seqs u ++ [(p, s, d)])).
Proof.
  intros u p s d st' (Hnd & Hne & Hsne & Hep) Hnd' Hst'.
  unfold unit_ok. simpl. split; [exact Hnd'|]. split; [|split].
  - apply in_not_nil with (x := p). apply Hst'. right. left. reflexivity.
  - apply app_one_not_nil.
  - intros x. rewrite Hst', endpoint_app, endpoint_one, Hep. tauto.
Qed.

Lemma unit_conn_extend : forall u p s d st',
  unit_conn u ->
  In p (ui_stops u) \/ In s (ui_stops u) ->
  (forall x, In x st' -> In x (ui_stops u) \/ x = p \/ x = s) ->
  unit_conn (mkUInfo st' (ui_seqs u ++ [(p, s, d)])).
Proof.
  intros u p s d st' Hc Hps Hst'. unfold unit_conn. simpl.
  assert (Hold : forall x y, In x (ui_stops u) -> In y (ui_stops u) ->
                             connected (ui_seqs u ++ [(p, s, d)]) x y).
  { intros x y Hx Hy. apply conn_mono with (l := ui_seqs u).
    - intros q Hq. apply in_app_iff. left. exact Hq.
    - apply Hc; assumption. }
  assert (Hedge : connected (ui_seqs u ++ [(p, s, d)]) p s).
  { apply conn_edge with (d := d). left. apply in_app_iff. right. left. reflexivity. }
  destruct Hps as [Hp|Hs].
  - apply conn_via_anchor with (a := p). intros x Hx.
    apply Hst' in Hx. destruct Hx as [Hx|[Hx|Hx]].
    + apply Hold; assumption.
    + subst x. apply conn_refl.
    + subst x. exact Hedge.
  - apply conn_via_anchor with (a := s). intros x Hx.
    apply Hst' in Hx. destruct Hx as [Hx|[Hx|Hx]].
    + apply Hold; assumption.
    + subst x. apply conn_sym. exact Hedge.
    + subst x. apply conn_refl.
Qed.

(* merge two units over a relation joining them *)
Lemma unit_ok_merge : forall t o p s d st',
  unit_ok t -> unit_ok o -> NoDup st' ->
  (In p (ui_stops t) /\ In s (ui_stops o)) \/ (In s (ui_stops t) /\ In p (ui_stops o)) ->
  (forall x, In x st' <-> In x (ui_stops t) \/ In x (ui_stops o)) ->
  unit_ok (mkUInfo st' (ui_seqs t ++ ui_seqs o ++ [(p, s, d)])).
Proof.
  intros t o p s d st' (Hnd1 & Hne1 & Hsne1 & Hep1) (Hnd2 & Hne2 & Hsne2 & Hep2) Hnd' Hps Hst'.
  unfold unit_ok. simpl. split; [exact Hnd'|]. split; [|split].
  - destruct (ui_stops t) as [|a r] eqn:E; [congruence|].
    apply in_not_nil with (x := a). apply Hst'. left. left. reflexivity.
  - rewrite app_assoc. apply app_one_not_nil.
  - intros x. rewrite Hst', !endpoint_app, endpoint_one, Hep1, Hep2.
    split; [tauto|]. intros [H|[H|[H|H]]]; [tauto|tauto| |].
    + subst x. rewrite <- Hep1, <- Hep2. tauto.
    + subst x. rewrite <- Hep1, <- Hep2. tauto.
Qed.

Lemma unit_conn_merge : forall t o p s d st',
  unit_conn t -> unit_conn o ->
  (In p (ui_stops t) /\ In s (ui_stops o)) \/ (In s (ui_stops t) /\ In p (ui_stops o)) ->
  (forall x, In x st' -> In x (ui_stops t) \/ In x (ui_stops o)) ->
  unit_conn (mkUInfo st' (ui_seqs t ++ ui_seqs o ++ [(p, s, d)])).
Proof.
  intros t o p s d st' Hc1 Hc2 Hps Hst'. unfold unit_conn. simpl.
  set (L := ui_seqs t ++ ui_seqs o ++ [(p, s, d)]).
  assert (H1 : forall x y, In x (ui_stops t) -> In y (ui_stops t) -> connected L x y).
  { intros x y Hx Hy. apply conn_mono with (l := ui_seqs t).
    - intros q Hq. unfold L. apply in_app_iff. left. exact Hq.
    - apply Hc1; assumption. }
  assert (H2 : forall x y, In x (ui_stops o) -> In y (ui_stops o) -> connected L x y).
  { intros x y Hx Hy. apply conn_mono with (l := ui_seqs o).
    - intros q Hq. unfold L. apply in_app_iff. right. apply in_app_iff. left. exact Hq.
    - apply Hc2; assumption. }
  assert (Hedge : connected L p s).
  { apply conn_edge with (d := d). left. unfold L.
    apply in_app_iff. right. apply in_app_iff. right. left. reflexivity. }
  apply conn_via_anchor with (a := p). intros x Hx. apply Hst' in Hx.
  destruct Hps as [(Hp & Hs)|(Hs & Hp)]; destruct Hx as [Hx|Hx].
  - apply H1; assumption.
  - eapply conn_trans; [exact Hedge|]. apply H2; assumption.
  - eapply conn_trans; [exact Hedge|]. apply H1; assumption.
  - apply H2; assumption.
Qed.

(* a fresh unit *)
Lemma unit_ok_new : forall p s d, unit_ok (mkUInfo (add_stop [p] s) [(p, s, d)]).
Proof.
  intros p s d. unfold unit_ok. simpl. split; [|split; [|split]].
  - apply NoDup_add_stop. constructor; [intros []|constructor].
  - apply in_not_nil with (x := p). apply in_add_stop. left. left. reflexivity.
  - discriminate.
  - intros x. rewrite in_add_stop, endpoint_one. simpl. split.
    + intros [[H|[]]|H]; [left; symmetry; exact H|right; exact H].
    + intros [H|H]; [left; left; symmetry; exact H|right; exact H].
Qed.

Lemma unit_conn_new : forall p s d, unit_conn (mkUInfo (add_stop [p] s) [(p, s, d)]).
Proof.
  intros p s d. unfold unit_conn. simpl.
  apply conn_via_anchor with (a := p). intros x Hx.
  apply in_add_stop in Hx. destruct Hx as [[Hx|[]]|Hx].
  - subst x. apply conn_refl.
  - subst x. apply conn_edge with (d := d). left. left. reflexivity.
Qed.

(* ------------------------------------------------------------------ *)
(* in_unit through the slice operations                                *)
(* ------------------------------------------------------------------ *)

Lemma agree_disjoint : forall units m i j x,
  agree units m -> in_unit units i x -> in_unit units j x -> i = j.
Proof.
  intros units m i j x HA Hi Hj. apply HA in Hi. apply HA in Hj. congruence.
Qed.

Lemma in_unit_remove_lt : forall units b i x,
  i < b -> (in_unit (remove_nth units b) i x <-> in_unit units i x).
Proof.
  intros units b i x Hlt. unfold in_unit. rewrite nth_error_remove_lt by exact Hlt. tauto.
Qed.

Lemma in_unit_remove_ge : forall units b i x,
  b <= i -> (in_unit (remove_nth units b) i x <-> in_unit units (S i) x).
Proof.
  intros units b i x Hle. unfold in_unit. rewrite nth_error_remove_ge by exact Hle. tauto.
Qed.

(* ------------------------------------------------------------------ *)
(* The re-indexing loop                                                *)
(* ------------------------------------------------------------------ *)

Lemma reindex_notin : forall us k m x,
  (forall i, ~ in_unit us i x) ->
  lookup (reindex us k m) x = lookup m x.
Proof.
  induction us as [|u r IH]; intros k m x Hni; simpl.
  - reflexivity.
  - rewrite IH.
    + apply lookup_fold_set_notin. intros HC. apply (Hni 0). exists u. split; [reflexivity|exact HC].
    + intros i (w & Hn & Hin). apply (Hni (S i)). exists w. split; [exact Hn|exact Hin].
Qed.

Lemma reindex_in : forall us k m i x,
  (forall i j, in_unit us i x -> in_unit us j x -> i = j) ->
  in_unit us i x ->
  lookup (reindex us k m) x = Some (k + i).
Proof.
  induction us as [|u r IH]; intros k m i x Hdis Hin.
  - destruct Hin as (w & Hn & _). destruct i; discriminate.
  - simpl. destruct i as [|i'].
    + destruct Hin as (w & Hn & Hin). simpl in Hn. injection Hn as <-.
      rewrite reindex_notin.
      * rewrite lookup_fold_set_in by exact Hin. f_equal. lia.
      * intros j (w & Hn & Hj).
        assert (E : 0 = S j).
        { apply Hdis.
          - exists u. split; [reflexivity|exact Hin].
          - exists w. split; [exact Hn|exact Hj]. }
        discriminate.
    + rewrite IH with (i := i').
      * f_equal. lia.
      * intros a b (w1 & Hn1 & H1) (w2 & Hn2 & H2).
        assert (E : S a = S b).
        { apply Hdis; [exists w1|exists w2]; (split; [assumption|assumption]). }
        lia.
      * destruct Hin as (w & Hn & Hin). exists w. split; [exact Hn|exact Hin].
Qed.

(* The re-indexing lemma: after the slice element b is removed, the loop maps
   every stop of every remaining unit to its new index, and leaves the bindings
   of the removed unit's stops (and of all stops in no unit) as they were. *)
Lemma reindex_after_remove : forall units m b old,
  agree units m ->
  nth_error units b = Some old ->
  let units1 := remove_nth units b in
  let m1 := reindex units1 0 m in
  (forall i x, in_unit units1 i x -> lookup m1 x = Some i) /\
  (forall x, In x (ui_stops old) -> lookup m1 x = Some b) /\
  (forall x, lookup m x = None -> lookup m1 x = None) /\
  (forall i x, lookup m1 x = Some i -> in_unit units1 i x \/ In x (ui_stops old)).
Proof.
  intros units m b old HA Hb units1 m1.
  assert (Hback : forall i x, in_unit units1 i x -> exists j, j <> b /\ in_unit units j x).
  { intros i x Hi. destruct (lt_dec i b) as [Hlt|Hge].
    - exists i. split; [lia|]. apply in_unit_remove_lt in Hi; assumption.
    - exists (S i). split; [lia|]. apply in_unit_remove_ge in Hi; [assumption|lia]. }
  assert (Hdis : forall x i j, in_unit units1 i x -> in_unit units1 j x -> i = j).
  { intros x i j Hi Hj.
    destruct (lt_dec i b) as [Hi'|Hi']; destruct (lt_dec j b) as [Hj'|Hj'].
    - apply in_unit_remove_lt in Hi; [|exact Hi']. apply in_unit_remove_lt in Hj; [|exact Hj'].
      eapply agree_disjoint; eauto.
    - apply in_unit_remove_lt in Hi; [|exact Hi']. apply in_unit_remove_ge in Hj; [|lia].
      assert (i = S j) by (eapply agree_disjoint; eauto). lia.
    - apply in_unit_remove_ge in Hi; [|lia]. apply in_unit_remove_lt in Hj; [|exact Hj'].
      assert (S i = j) by (eapply agree_disjoint; eauto). lia.
    - apply in_unit_remove_ge in Hi; [|lia]. apply in_unit_remove_ge in Hj; [|lia].
      assert (S i = S j) by (eapply agree_disjoint; eauto). lia. }
  assert (P1 : forall i x, in_unit units1 i x -> lookup m1 x = Some i).
  { intros i x Hi. unfold m1. rewrite reindex_in with (i := i).
    - reflexivity.
    - intros a c; apply Hdis.
    - exact Hi. }
  assert (Hold : forall x, In x (ui_stops old) -> forall i, ~ in_unit units1 i x).
  { intros x Hx i Hi. apply Hback in Hi. destruct Hi as (j & Hne & Hj).
    apply Hne. eapply agree_disjoint; [exact HA|exact Hj|]. exists old. split; assumption. }
  split; [exact P1|]. split; [|split].
  - intros x Hx. unfold m1. rewrite reindex_notin by (apply Hold; exact Hx).
    apply HA. exists old. split; assumption.
  - intros x Hx. unfold m1. rewrite reindex_notin; [exact Hx|].
    intros i Hi. apply Hback in Hi. destruct Hi as (j & _ & Hj). apply HA in Hj. congruence.
  - intros i x HL.
    destruct (lookup m x) as [j|] eqn:Ej.
    + apply HA in Ej. destruct (Nat.eq_dec j b) as [E|E].
      * right. subst j. destruct Ej as (w & Hn & Hw). congruence.
      * left. assert (Hx : exists i', in_unit units1 i' x).
        { destruct (lt_dec j b) as [Hlt|Hge].
          - exists j. apply in_unit_remove_lt; assumption.
          - exists (j - 1). apply in_unit_remove_ge; [lia|].
            replace (S (j - 1)) with j by lia. exact Ej. }
        destruct Hx as (i' & Hi'). pose proof (P1 _ _ Hi') as E'.
        assert (i' = i) by congruence. subst i'. exact Hi'.
    + exfalso. unfold m1 in HL. rewrite reindex_notin in HL; [congruence|].
      intros k Hk. apply Hback in Hk. destruct Hk as (j & _ & Hj). apply HA in Hj. congruence.
Qed.

(* ------------------------------------------------------------------ *)
(* agree through the three kinds of step                               *)
(* ------------------------------------------------------------------ *)

Lemma agree_attach : forall units m ui u p s st' sq',
  agree units m ->
  nth_error units ui = Some u ->
  (lookup m p = Some ui \/ lookup m p = None) ->
  (lookup m s = Some ui \/ lookup m s = None) ->
  (forall x, In x st' <-> In x (ui_stops u) \/ x = p \/ x = s) ->
  agree (update_nth units ui (mkUInfo st' sq')) (set_in (set_in m p ui) s ui).
Proof.
  intros units m ui u p s st' sq' HA Hu Hp Hs Hst'.
  assert (Hlt : ui < length units) by (apply nth_error_Some; congruence).
  intros x i. rewrite !lookup_set_in. split.
  - intros HL.
    assert (Hcase : i = ui /\ (x = p \/ x = s) \/ lookup m x = Some i).
    { destruct (Nat.eqb_spec s x) as [E|E].
      - left. split; [congruence|right; congruence].
      - destruct (Nat.eqb_spec p x) as [E'|E'].
        + left. split; [congruence|left; congruence].
        + right. exact HL. }
    destruct Hcase as [(-> & Hx)|HL'].
    + eexists. split; [apply nth_error_update_eq; exact Hlt|]. simpl. apply Hst'. tauto.
    + apply HA in HL'. destruct HL' as (w & Hn & Hw).
      destruct (Nat.eq_dec i ui) as [->|Hne].
      * eexists. split; [apply nth_error_update_eq; exact Hlt|]. simpl. apply Hst'.
        left. congruence.
      * exists w. split; [|exact Hw]. rewrite nth_error_update_neq by lia. exact Hn.
  - intros (w & Hn & Hw).
    destruct (Nat.eq_dec i ui) as [->|Hne].
    + rewrite nth_error_update_eq in Hn by exact Hlt. injection Hn as <-. simpl in Hw.
      destruct (Nat.eqb_spec s x) as [E|E]; [reflexivity|].
      destruct (Nat.eqb_spec p x) as [E'|E']; [reflexivity|].
      apply Hst' in Hw. destruct Hw as [Hw|[Hw|Hw]]; [|congruence|congruence].
      apply HA. exists u. split; assumption.
    + rewrite nth_error_update_neq in Hn by lia.
      assert (HL : lookup m x = Some i) by (apply HA; exists w; split; assumption).
      destruct (Nat.eqb_spec s x) as [E|E].
      { subst x. destruct Hs as [Hs|Hs]; congruence. }
      destruct (Nat.eqb_spec p x) as [E'|E'].
      { subst x. destruct Hp as [Hp|Hp]; congruence. }
      exact HL.
Qed.

Lemma agree_new : forall units m p s st' sq',
  agree units m ->
  lookup m p = None -> lookup m s = None ->
  (forall x, In x st' <-> x = p \/ x = s) ->
  agree (units ++ [mkUInfo st' sq'])
        (set_in (set_in m p (length units)) s (length units)).
Proof.
  intros units m p s st' sq' HA Hp Hs Hst'.
  intros x i. rewrite !lookup_set_in. split.
  - intros HL.
    assert (Hcase : i = length units /\ (x = p \/ x = s) \/ lookup m x = Some i).
    { destruct (Nat.eqb_spec s x) as [E|E].
      - left. split; [congruence|right; congruence].
      - destruct (Nat.eqb_spec p x) as [E'|E'].
        + left. split; [congruence|left; congruence].
        + right. exact HL. }
    destruct Hcase as [(-> & Hx)|HL'].
    + eexists. split.
      * rewrite nth_error_app2 by lia. rewrite Nat.sub_diag. reflexivity.
      * simpl. apply Hst'. exact Hx.
    + apply HA in HL'. destruct HL' as (w & Hn & Hw).
      exists w. split; [|exact Hw]. rewrite nth_error_app1; [exact Hn|].
      apply nth_error_Some. congruence.
  - intros (w & Hn & Hw).
    destruct (lt_dec i (length units)) as [Hlt|Hge].
    + rewrite nth_error_app1 in Hn by exact Hlt.
      assert (HL : lookup m x = Some i) by (apply HA; exists w; split; assumption).
      destruct (Nat.eqb_spec s x) as [E|E]; [congruence|].
      destruct (Nat.eqb_spec p x) as [E'|E']; [congruence|].
      exact HL.
    + rewrite nth_error_app2 in Hn by lia.
      destruct (i - length units) as [|k] eqn:Ek.
      * simpl in Hn. injection Hn as <-. simpl in Hw. apply Hst' in Hw.
        assert (i = length units) by lia. subst i.
        destruct (Nat.eqb_spec s x) as [E|E]; [reflexivity|].
        destruct (Nat.eqb_spec p x) as [E'|E']; [reflexivity|].
        destruct Hw; congruence.
      * simpl in Hn. destruct k; discriminate.
Qed.

Lemma agree_merge : forall units m a b old tgt st' sq',
  agree units m ->
  a < b ->
  nth_error units b = Some old ->
  nth_error units a = Some tgt ->
  (forall x, In x st' <-> In x (ui_stops tgt) \/ In x (ui_stops old)) ->
  agree (update_nth (remove_nth units b) a (mkUInfo st' sq'))
        (fold_left (fun mm s => set_in mm s a) (ui_stops old)
                   (reindex (remove_nth units b) 0 m)).
Proof.
  intros units m a b old tgt st' sq' HA Hab Hb Ha Hst'.
  destruct (reindex_after_remove units m b old HA Hb) as (R1 & R2 & R3 & R4).
  set (units1 := remove_nth units b) in *.
  set (m1 := reindex units1 0 m) in *.
  assert (Ha1 : nth_error units1 a = Some tgt).
  { unfold units1. rewrite nth_error_remove_lt by exact Hab. exact Ha. }
  assert (Hlt : a < length units1) by (apply nth_error_Some; congruence).
  intros x i. split.
  - intros HL.
    destruct (in_dec Nat.eq_dec x (ui_stops old)) as [Hx|Hx].
    + rewrite lookup_fold_set_in in HL by exact Hx. injection HL as <-.
      eexists. split; [apply nth_error_update_eq; exact Hlt|]. simpl. apply Hst'. tauto.
    + rewrite lookup_fold_set_notin in HL by exact Hx.
      apply R4 in HL. destruct HL as [HL|HL]; [|contradiction].
      destruct (Nat.eq_dec i a) as [->|Hne].
      * eexists. split; [apply nth_error_update_eq; exact Hlt|]. simpl. apply Hst'.
        left. destruct HL as (w & Hn & Hw). congruence.
      * destruct HL as (w & Hn & Hw). exists w. split; [|exact Hw].
        rewrite nth_error_update_neq by lia. exact Hn.
  - intros (w & Hn & Hw).
    destruct (Nat.eq_dec i a) as [->|Hne].
    + rewrite nth_error_update_eq in Hn by exact Hlt. injection Hn as <-. simpl in Hw.
      apply Hst' in Hw.
      destruct (in_dec Nat.eq_dec x (ui_stops old)) as [Hx|Hx].
      * apply lookup_fold_set_in. exact Hx.
      * rewrite lookup_fold_set_notin by exact Hx.
        destruct Hw as [Hw|Hw]; [|contradiction].
        apply R1. exists tgt. split; assumption.
    + rewrite nth_error_update_neq in Hn by lia.
      assert (H1 : lookup m1 x = Some i) by (apply R1; exists w; split; assumption).
      destruct (in_dec Nat.eq_dec x (ui_stops old)) as [Hx|Hx].
      * exfalso. pose proof (R2 _ Hx) as H2.
        assert (i = b) by congruence. subst i.
        (* x would be in units1 at index b, i.e. in units at index S b, and in old at b *)
        assert (Hin : in_unit units (S b) x).
        { apply in_unit_remove_ge with (b := b); [lia|]. exists w. split; assumption. }
        assert (S b = b).
        { eapply agree_disjoint; [exact HA|exact Hin|]. exists old. split; assumption. }
        lia.
      * rewrite lookup_fold_set_notin by exact Hx. exact H1.
Qed.

Lemma agree_same : forall units m ui u sq',
  agree units m ->
  nth_error units ui = Some u ->
  agree (update_nth units ui (mkUInfo (ui_stops u) sq')) m.
Proof.
  intros units m ui u sq' HA Hu.
  assert (Hlt : ui < length units) by (apply nth_error_Some; congruence).
  intros x i. rewrite (HA x i). unfold in_unit.
  destruct (Nat.eq_dec i ui) as [->|Hne].
  - rewrite nth_error_update_eq by exact Hlt. rewrite Hu. split.
    + intros (w & Hn & Hw). injection Hn as <-. eexists. split; [reflexivity|exact Hw].
    + intros (w & Hn & Hw). injection Hn as <-. eexists. split; [reflexivity|exact Hw].
  - rewrite nth_error_update_neq by lia. tauto.
Qed.

(* ------------------------------------------------------------------ *)
(* One iteration                                                       *)
(* ------------------------------------------------------------------ *)

Definition step_post (units : list uinfo) (q : seqt) (units' : list uinfo) (m' : smap) : Prop :=
  wf_state units' m' /\
  (Forall unit_conn units -> Forall unit_conn units') /\
  Permutation (allseqs units') (allseqs units ++ [q]).

Lemma perm_attach : forall units i u u' q,
  nth_error units i = Some u ->
  ui_seqs u' = ui_seqs u ++ [q] ->
  Permutation (allseqs (update_nth units i u')) (allseqs units ++ [q]).
Proof.
  intros units i u u' q Hn Hs.
  eapply Permutation_trans; [apply allseqs_update with (u := u); exact Hn|].
  rewrite Hs.
  eapply Permutation_trans;
    [|apply Permutation_app_tail; apply Permutation_sym; apply allseqs_remove; exact Hn].
  rewrite <- !app_assoc. apply Permutation_app_head. apply Permutation_app_comm.
Qed.

Lemma perm_merge_lists : forall (A B R : list seqt) q,
  Permutation ((A ++ B ++ [q]) ++ R) ((B ++ A ++ R) ++ [q]).
Proof.
  intros A B R q. rewrite <- !app_assoc.
  eapply Permutation_trans; [apply Permutation_app_swap_app|].
  apply Permutation_app_head. apply Permutation_app_head. apply Permutation_app_comm.
Qed.

Lemma perm_merge : forall units a b tgt old u' q,
  a < b ->
  nth_error units a = Some tgt ->
  nth_error units b = Some old ->
  ui_seqs u' = ui_seqs tgt ++ ui_seqs old ++ [q] ->
  Permutation (allseqs (update_nth (remove_nth units b) a u')) (allseqs units ++ [q]).
Proof.
  intros units a b tgt old u' q Hab Ha Hb Hs.
  assert (Ha1 : nth_error (remove_nth units b) a = Some tgt).
  { rewrite nth_error_remove_lt by exact Hab. exact Ha. }
  eapply Permutation_trans; [apply allseqs_update with (u := tgt); exact Ha1|].
  rewrite Hs.
  eapply Permutation_trans; [apply perm_merge_lists|].
  apply Permutation_app_tail. apply Permutation_sym.
  eapply Permutation_trans; [apply allseqs_remove; exact Hb|].
  apply Permutation_app_head. apply allseqs_remove. exact Ha1.
Qed.

Lemma attach_spec : forall units m ui u p s d st',
  wf_state units m ->
  nth_error units ui = Some u ->
  (lookup m p = Some ui \/ lookup m p = None) ->
  (lookup m s = Some ui \/ lookup m s = None) ->
  In p (ui_stops u) \/ In s (ui_stops u) ->
  NoDup st' ->
  (forall x, In x st' <-> In x (ui_stops u) \/ x = p \/ x = s) ->
  step_post units (p, s, d)
            (update_nth units ui (mkUInfo st' (ui_seqs u ++ [(p, s, d)])))
            (set_in (set_in m p ui) s ui).
Proof.
  intros units m ui u p s d st' Hwf Hu Hp Hs Hps Hnd Hst'.
  apply wf_state_agree in Hwf. destruct Hwf as (HA & HF).
  split; [|split].
  - apply wf_state_agree. split.
    + eapply agree_attach; eauto.
    + apply Forall_update_nth; [exact HF|].
      apply unit_ok_extend; [eapply Forall_nth_error; eauto|exact Hnd|exact Hst'].
  - intros HC. apply Forall_update_nth; [exact HC|].
    apply unit_conn_extend; [eapply Forall_nth_error; eauto|exact Hps|].
    intros x Hx. apply Hst'. exact Hx.
  - eapply perm_attach; [exact Hu|reflexivity].
Qed.

Lemma merge_spec : forall units m i1 i2 u1 u2 p s d,
  wf_state units m ->
  i1 <> i2 ->
  nth_error units i1 = Some u1 -> nth_error units i2 = Some u2 ->
  In p (ui_stops u1) -> In s (ui_stops u2) ->
  exists units' m',
    merge_units true i1 i2 units m (p, s, d) = Some (units', m') /\
    step_post units (p, s, d) units' m'.
Proof.
  intros units m i1 i2 u1 u2 p s d Hwf Hne Hn1 Hn2 Hp Hs.
  apply wf_state_agree in Hwf. destruct Hwf as (HA & HF).
  unfold merge_units. cbv zeta.
  set (a := Nat.min i1 i2). set (b := Nat.max i1 i2).
  assert (Hab : exists tgt old,
             a < b /\ nth_error units a = Some tgt /\ nth_error units b = Some old /\
             ((In p (ui_stops tgt) /\ In s (ui_stops old)) \/
              (In s (ui_stops tgt) /\ In p (ui_stops old)))).
  { unfold a, b. destruct (lt_dec i1 i2) as [Hlt|Hge].
    - rewrite Nat.min_l, Nat.max_r by lia. exists u1, u2. repeat split; auto.
    - rewrite Nat.min_r, Nat.max_l by lia. exists u2, u1. repeat split; auto. lia. }
  clearbody a b. destruct Hab as (tgt & old & Hab & Ha & Hb & Hps).
  rewrite Hb. rewrite nth_error_remove_lt by exact Hab. rewrite Ha.
  eexists. eexists. split; [reflexivity|].
  assert (Hdisj : forall x, In x (ui_stops tgt) -> In x (ui_stops old) -> False).
  { intros x H1 H2. assert (a = b); [|lia].
    eapply agree_disjoint; [exact HA|exists tgt|exists old]; split; eassumption. }
  split; [|split].
  - apply wf_state_agree. split.
    + apply agree_merge with (tgt := tgt); try assumption.
      intros x. apply in_fold_add_stop.
    + apply Forall_update_nth; [apply Forall_remove_nth; exact HF|].
      apply unit_ok_merge.
      * eapply Forall_nth_error; eauto.
      * eapply Forall_nth_error; eauto.
      * apply NoDup_fold_add_stop.
        assert (Hok : unit_ok tgt) by (eapply Forall_nth_error; eauto).
        destruct Hok as (Hnd & _). exact Hnd.
      * exact Hps.
      * intros x. apply in_fold_add_stop.
  - intros HC. apply Forall_update_nth; [apply Forall_remove_nth; exact HC|].
    apply unit_conn_merge.
    + eapply Forall_nth_error; eauto.
    + eapply Forall_nth_error; eauto.
    + exact Hps.
    + intros x Hx. apply in_fold_add_stop. exact Hx.
  - eapply perm_merge; eauto.
Qed.

Lemma step_spec : forall units m q,
  wf_state units m ->
  exists units' m',
    step_seq true (units, m) q = Some (units', m') /\ step_post units q units' m'.
Proof.
  intros units m [[p s] d] Hwf.
  pose proof Hwf as Hwf0. apply wf_state_agree in Hwf0. destruct Hwf0 as (HA & HF).
  unfold step_seq.
  destruct (lookup m p) as [i1|] eqn:Ep; destruct (lookup m s) as [i2|] eqn:Es.
  - (* both ends already in units *)
    destruct (proj1 (HA _ _) Ep) as (u1 & Hn1 & Hp1).
    destruct (proj1 (HA _ _) Es) as (u2 & Hn2 & Hs2).
    destruct (Nat.eqb_spec i1 i2) as [E|E].
    + subst i2. rewrite Hn1. assert (u2 = u1) by congruence. subst u2.
      eexists. eexists. split; [reflexivity|].
      split; [|split].
      * apply wf_state_agree. split.
        -- eapply agree_same; eauto.
        -- apply Forall_update_nth; [exact HF|].
           apply unit_ok_extend.
           ++ eapply Forall_nth_error; eauto.
           ++ assert (Hok : unit_ok u1) by (eapply Forall_nth_error; eauto).
              destruct Hok as (Hnd & _). exact Hnd.
           ++ intros x. simpl. split; [tauto|]. intros [H|[H|H]]; [exact H|subst x; exact Hp1|subst x; exact Hs2].
      * intros HC. apply Forall_update_nth; [exact HC|].
        apply unit_conn_extend.
        -- eapply Forall_nth_error; eauto.
        -- left. exact Hp1.
        -- intros x Hx. left. exact Hx.
      * eapply perm_attach; [exact Hn1|reflexivity].
    + eapply merge_spec; eauto.
  - (* predecessor known *)
    destruct (proj1 (HA _ _) Ep) as (u1 & Hn1 & Hp1).
    unfold to_existing. rewrite Hn1.
    eexists. eexists. split; [reflexivity|].
    eapply attach_spec; eauto.
    + apply NoDup_add_stop. apply NoDup_add_stop.
      assert (Hok : unit_ok u1) by (eapply Forall_nth_error; eauto).
      destruct Hok as (Hnd & _). exact Hnd.
    + intros x. rewrite !in_add_stop. tauto.
  - (* successor known *)
    destruct (proj1 (HA _ _) Es) as (u2 & Hn2 & Hs2).
    unfold to_existing. rewrite Hn2.
    eexists. eexists. split; [reflexivity|].
    eapply attach_spec; eauto.
    + apply NoDup_add_stop. apply NoDup_add_stop.
      assert (Hok : unit_ok u2) by (eapply Forall_nth_error; eauto).
      destruct Hok as (Hnd & _). exact Hnd.
    + intros x. rewrite !in_add_stop. tauto.
  - (* a new unit *)
    eexists. eexists. split; [reflexivity|].
    split; [|split].
    + apply wf_state_agree. split.
      * apply agree_new; try assumption.
        intros x. rewrite in_add_stop. simpl. split.
        -- intros [[H|[]]|H]; [left; symmetry; exact H|right; exact H].
        -- intros [H|H]; [left; left; symmetry; exact H|right; exact H].
      * apply Forall_app. split; [exact HF|]. constructor; [apply unit_ok_new|constructor].
    + intros HC. apply Forall_app. split; [exact HC|].
      constructor; [apply unit_conn_new|constructor].
    + rewrite allseqs_app. apply Permutation_app_head. unfold allseqs. simpl.
      apply Permutation_refl.
Qed.

(* ------------------------------------------------------------------ *)
(* The invariant of the whole loop                                     *)
(* ------------------------------------------------------------------ *)

Lemma wf_init : wf_state [] [].
Proof.
  split; [|split].
  - intros s i H. discriminate.
  - intros i u s H. destruct i; discriminate.
  - constructor.
Qed.

Lemma wf_step : forall units m q,
  wf_state units m ->
  exists units' m', step_seq true (units, m) q = Some (units', m') /\ wf_state units' m'.
Proof.
  intros units m q Hwf. destruct (step_spec units m q Hwf) as (units' & m' & Hs & Hw & _).
  exists units', m'. split; assumption.
Qed.

Lemma wf_step_not_None : forall units m q,
  wf_state units m -> step_seq true (units, m) q <> None.
Proof.
  intros units m q Hwf. destruct (wf_step units m q Hwf) as (units' & m' & Hs & _). congruence.
Qed.

(* the clauses of wf_state, spelled out *)
Lemma wf_state_unfold : forall units m,
  wf_state units m <->
  ((forall s i, lookup m s = Some i ->
      i < length units /\ exists u, nth_error units i = Some u /\ In s (ui_stops u)) /\
   (forall i u s, nth_error units i = Some u -> In s (ui_stops u) -> lookup m s = Some i) /\
   (forall u, In u units ->
      NoDup (ui_stops u) /\ ui_stops u <> [] /\ ui_seqs u <> [] /\
      (forall x, In x (ui_stops u) <->
                 exists p s d, In (p, s, d) (ui_seqs u) /\ (x = p \/ x = s)))).
Proof.
  intros units m. unfold wf_state. rewrite Forall_forall. unfold unit_ok, endpoint. tauto.
Qed.

(* the stop lists of a wf state are pairwise disjoint *)
Lemma wf_disjoint : forall units m i j u v x,
  wf_state units m ->
  nth_error units i = Some u -> nth_error units j = Some v ->
  In x (ui_stops u) -> In x (ui_stops v) -> i = j.
Proof.
  intros units m i j u v x (_ & H2 & _) Hi Hj Hu Hv.
  pose proof (H2 _ _ _ Hi Hu). pose proof (H2 _ _ _ Hj Hv). congruence.
Qed.

Definition inv (qs0 : list seqt) (units : list uinfo) (m : smap) : Prop :=
  wf_state units m /\ Forall unit_conn units /\ Permutation (allseqs units) qs0.

Lemma inv_init : inv [] [] [].
Proof.
  split; [exact wf_init|]. split; [constructor|]. apply Permutation_refl.
Qed.

Lemma inv_step : forall qs0 units m q,
  inv qs0 units m ->
  exists units' m',
    step_seq true (units, m) q = Some (units', m') /\ inv (qs0 ++ [q]) units' m'.
Proof.
  intros qs0 units m q (Hwf & HC & HP).
  destruct (step_spec units m q Hwf) as (units' & m' & Hs & Hw & Hc & Hp).
  exists units', m'. split; [exact Hs|].
  split; [exact Hw|]. split; [apply Hc; exact HC|].
  eapply Permutation_trans; [exact Hp|]. apply Permutation_app_tail. exact HP.
Qed.

Lemma inv_run : forall qs qs0 units m,
  inv qs0 units m ->
  exists units' m',
    run_seqs true (units, m) qs = Some (units', m') /\ inv (qs0 ++ qs) units' m'.
Proof.
  induction qs as [|q r IH]; intros qs0 units m Hinv; cbn [run_seqs].
  - exists units, m. split; [reflexivity|]. rewrite app_nil_r. exact Hinv.
  - destruct (inv_step qs0 units m q Hinv) as (units' & m' & Hs & Hinv').
    rewrite Hs. destruct (IH _ _ _ Hinv') as (units'' & m'' & Hr & Hinv'').
    exists units'', m''. split; [exact Hr|].
    rewrite <- app_assoc in Hinv''. exact Hinv''.
Qed.

Lemma all_sequences_inv : forall qs,
  exists us m, all_sequences qs = Some us /\ inv qs us m.
Proof.
  intros qs. destruct (inv_run qs [] [] [] inv_init) as (us & m & Hr & Hinv).
  exists us, m. split; [|exact Hinv].
  unfold all_sequences, all_sequences_gen. unfold smap in *. rewrite Hr. reflexivity.
Qed.

Lemma all_sequences_inv' : forall qs us,
  all_sequences qs = Some us -> exists m, inv qs us m.
Proof.
  intros qs us H. destruct (all_sequences_inv qs) as (us' & m & H' & Hinv).
  exists m. congruence.
Qed.

(* the re-indexing lemma in terms of wf_state, without auxiliary vocabulary *)
Lemma reindex_after_remove_wf : forall units m b old,
  wf_state units m ->
  nth_error units b = Some old ->
  let units1 := remove_nth units b in
  let m1 := reindex units1 0 m in
  (forall i u, nth_error units1 i = Some u ->
     nth_error units (if i <? b then i else S i) = Some u) /\
  (forall i u x, nth_error units1 i = Some u -> In x (ui_stops u) -> lookup m1 x = Some i) /\
  (forall x, In x (ui_stops old) -> lookup m1 x = lookup m x).
Proof.
  intros units m b old Hwf Hb units1 m1.
  apply wf_state_agree in Hwf. destruct Hwf as (HA & _).
  destruct (reindex_after_remove units m b old HA Hb) as (R1 & R2 & _ & _).
  split; [|split].
  - intros i u Hn. unfold units1 in Hn. destruct (Nat.ltb_spec i b) as [Hlt|Hge].
    + rewrite nth_error_remove_lt in Hn by exact Hlt. exact Hn.
    + rewrite nth_error_remove_ge in Hn by exact Hge. exact Hn.
  - intros i u x Hn Hx. apply R1. exists u. split; assumption.
  - intros x Hx. fold units1 in R2. fold m1 in R2. rewrite (R2 x Hx). symmetry.
    apply HA. exists old. split; assumption.
Qed.

(* ------------------------------------------------------------------ *)
(* Results                                                             *)
(* ------------------------------------------------------------------ *)

Lemma total : forall qs, exists us, all_sequences qs = Some us.
Proof.
  intros qs. destruct (all_sequences_inv qs) as (us & m & H & _). exists us. exact H.
Qed.

Lemma keeps_every_relation : forall qs us,
  all_sequences qs = Some us -> Permutation (concat (map ui_seqs us)) qs.
Proof.
  intros qs us H. destruct (all_sequences_inv' qs us H) as (m & _ & _ & HP). exact HP.
Qed.

Lemma direct_flags_kept : forall qs us,
  all_sequences qs = Some us ->
  forall p s d, In (p, s, d) qs <-> exists u, In u us /\ In (p, s, d) (ui_seqs u).
Proof.
  intros qs us H p s d. pose proof (keeps_every_relation qs us H) as HP.
  rewrite <- in_allseqs. split.
  - apply Permutation_in. apply Permutation_sym. exact HP.
  - apply Permutation_in. exact HP.
Qed.

Lemma units_disjoint : forall qs us,
  all_sequences qs = Some us ->
  (forall u, In u us -> NoDup (ui_stops u)) /\
  (forall i j u v x, nth_error us i = Some u -> nth_error us j = Some v ->
     In x (ui_stops u) -> In x (ui_stops v) -> i = j).
Proof.
  intros qs us H. destruct (all_sequences_inv' qs us H) as (m & Hwf & _ & _). split.
  - intros u Hu. destruct Hwf as (_ & _ & HF). rewrite Forall_forall in HF.
    destruct (HF _ Hu) as (Hnd & _). exact Hnd.
  - intros i j u v x. apply wf_disjoint with (m := m). exact Hwf.
Qed.

Lemma units_cover_endpoints : forall qs us,
  all_sequences qs = Some us ->
  forall x, (exists u, In u us /\ In x (ui_stops u)) <-> endpoint qs x.
Proof.
  intros qs us H x. destruct (all_sequences_inv' qs us H) as (m & Hwf & _ & HP).
  destruct Hwf as (_ & _ & HF). rewrite Forall_forall in HF. split.
  - intros (u & Hu & Hx). destruct (HF _ Hu) as (_ & _ & _ & Hep).
    apply Hep in Hx. destruct Hx as (p & s & d & Hin & Hx).
    exists p, s, d. split; [|exact Hx].
    eapply Permutation_in; [exact HP|]. apply in_allseqs. eauto.
  - intros (p & s & d & Hin & Hx).
    apply (Permutation_in _ (Permutation_sym HP)) in Hin.
    apply in_allseqs in Hin. destruct Hin as (u & Hu & Hq).
    exists u. split; [exact Hu|]. destruct (HF _ Hu) as (_ & _ & _ & Hep).
    apply Hep. exists p, s, d. split; assumption.
Qed.

(* both ends of a relation of the input are in one unit *)
Lemma inv_edge_same_unit : forall qs us m x y d,
  inv qs us m ->
  In (x, y, d) qs \/ In (y, x, d) qs ->
  exists k w, nth_error us k = Some w /\ In x (ui_stops w) /\ In y (ui_stops w).
Proof.
  intros qs us m x y d (Hwf & _ & HP) He.
  destruct Hwf as (_ & _ & HF). rewrite Forall_forall in HF.
  assert (Hq : exists q, In q qs /\ (q = (x, y, d) \/ q = (y, x, d))).
  { destruct He as [He|He]; eexists; (split; [exact He|]); auto. }
  destruct Hq as (q & Hin & Hq).
  apply (Permutation_in _ (Permutation_sym HP)) in Hin.
  apply in_allseqs in Hin. destruct Hin as (w & Hw & Hqw).
  destruct (In_nth_error _ _ Hw) as (k & Hk).
  exists k, w. split; [exact Hk|].
  destruct (HF _ Hw) as (_ & _ & _ & Hep).
  destruct Hq as [-> | ->]; split; apply Hep; eexists; eexists; eexists; (split; [exact Hqw|]); auto.
Qed.

Lemma inv_same_unit_iff_connected : forall qs us m,
  inv qs us m ->
  forall i j u v x y,
    nth_error us i = Some u -> nth_error us j = Some v ->
    In x (ui_stops u) -> In y (ui_stops v) ->
    (i = j <-> connected qs x y).
Proof.
  intros qs us m Hinv i j u v x y Hi Hj Hx Hy.
  pose proof Hinv as (Hwf & HC & HP). split.
  - intros <-. assert (v = u) by congruence. subst v.
    apply conn_mono with (l := ui_seqs u).
    + intros q Hq. eapply Permutation_in; [exact HP|]. apply in_allseqs.
      exists u. split; [eapply nth_error_In; exact Hi|exact Hq].
    + assert (Hc : unit_conn u) by (eapply Forall_nth_error; eauto).
      apply Hc; assumption.
  - intros Hc. revert i u Hi Hx. induction Hc as [x|x y' z d He _ IH]; intros i u Hi Hx.
    + exact (wf_disjoint us m i j u v x Hwf Hi Hj Hx Hy).
    + destruct (inv_edge_same_unit qs us m x y' d Hinv He) as (k & w & Hk & Hxw & Hyw).
      assert (E : k = i) by exact (wf_disjoint us m k i w u x Hwf Hk Hi Hxw Hx).
      subst k. exact (IH Hy i w Hk Hyw).
Qed.

Lemma units_are_classes : forall qs us,
  all_sequences qs = Some us ->
  forall i j u v x y,
    nth_error us i = Some u -> nth_error us j = Some v ->
    In x (ui_stops u) -> In y (ui_stops v) ->
    (i = j <-> connected qs x y).
Proof.
  intros qs us H. destruct (all_sequences_inv' qs us H) as (m & Hinv).
  exact (inv_same_unit_iff_connected qs us m Hinv).
Qed.

Lemma units_are_components : forall qs us,
  all_sequences qs = Some us ->
  ((forall u, In u us -> NoDup (ui_stops u)) /\
   (forall i j u v x, nth_error us i = Some u -> nth_error us j = Some v ->
      In x (ui_stops u) -> In x (ui_stops v) -> i = j)) /\
  (forall x, (exists u, In u us /\ In x (ui_stops u)) <->
             (exists p s d, In (p, s, d) qs /\ (x = p \/ x = s))) /\
  (forall i j u v x y,
     nth_error us i = Some u -> nth_error us j = Some v ->
     In x (ui_stops u) -> In y (ui_stops v) ->
     (i = j <-> connected qs x y)).
Proof.
  intros qs us H. split; [exact (units_disjoint qs us H)|].
  split; [exact (units_cover_endpoints qs us H)|exact (units_are_classes qs us H)].
Qed.

(* ------------------------------------------------------------------ *)
(* Without the re-indexing loop                                        *)
(* ------------------------------------------------------------------ *)

Definition witness_panic : list seqt :=
  [(0,1,false);(2,3,false);(4,5,false);(6,2,false);(1,6,false);(5,7,false)].

Lemma without_reindex_panics : exists qs, all_sequences_gen false qs = None.
Proof. exists witness_panic. vm_compute. reflexivity. Qed.

(* four chains; the first two are merged; then the third is extended: its stops
   still point at slot 2, which now holds the fourth chain *)
Definition witness_misgroup : list seqt :=
  [(0,1,false);(2,3,false);(4,5,false);(6,7,false);(1,2,false);(5,8,false)].

Definition witness_misgroup_out : list uinfo :=
  [ mkUInfo [0;1;2;3] [(0,1,false);(2,3,false);(1,2,false)];
    mkUInfo [4;5] [(4,5,false)];
    mkUInfo [6;7;5;8] [(6,7,false);(5,8,false)] ].

Lemma witness_misgroup_run : all_sequences_gen false witness_misgroup = Some witness_misgroup_out.
Proof. vm_compute. reflexivity. Qed.

Definition witness_class (x : nat) : nat :=
  if x <=? 3 then 0 else if (x =? 6) || (x =? 7) then 6 else 4.

Lemma witness_misgroup_6_8 : ~ connected witness_misgroup 6 8.
Proof.
  intros HC. apply conn_class with (f := witness_class) in HC.
  - vm_compute in HC. discriminate.
  - intros p s d Hin. unfold witness_misgroup in Hin. simpl in Hin.
    repeat (destruct Hin as [Hin|Hin]; [injection Hin as <- <- <-; reflexivity|]).
    destruct Hin.
Qed.

Lemma without_reindex_misgroups_strong :
  exists qs us, all_sequences_gen false qs = Some us /\
    exists u x y, In u us /\ In x (ui_stops u) /\ In y (ui_stops u) /\ ~ connected qs x y.
Proof.
  exists witness_misgroup, witness_misgroup_out. split; [exact witness_misgroup_run|].
  exists (mkUInfo [6;7;5;8] [(6,7,false);(5,8,false)]), 6, 8.
  split; [simpl; tauto|]. split; [simpl; tauto|]. split; [simpl; tauto|].
  exact witness_misgroup_6_8.
Qed.

Lemma without_reindex_misgroups :
  exists qs us, all_sequences_gen false qs = Some us /\
    ~ (forall i j u v x y,
         nth_error us i = Some u -> nth_error us j = Some v ->
         In x (ui_stops u) -> In y (ui_stops v) ->
         (i = j <-> connected qs x y)).
Proof.
  exists witness_misgroup, witness_misgroup_out. split; [exact witness_misgroup_run|].
  intros H.
  specialize (H 2 2 _ _ 6 8 eq_refl eq_refl).
  simpl in H. destruct H as [H _]; [tauto|tauto|].
  apply witness_misgroup_6_8. apply H. reflexivity.
Qed.

(* without re-indexing the stop lists are not even disjoint: stop 5 is in two units *)
Lemma without_reindex_not_disjoint :
  exists qs us, all_sequences_gen false qs = Some us /\
    exists i j u v x, nth_error us i = Some u /\ nth_error us j = Some v /\
      In x (ui_stops u) /\ In x (ui_stops v) /\ i <> j.
Proof.
  exists witness_misgroup, witness_misgroup_out. split; [exact witness_misgroup_run|].
  exists 1, 2, (mkUInfo [4;5] [(4,5,false)]), (mkUInfo [6;7;5;8] [(6,7,false);(5,8,false)]), 5.
  split; [reflexivity|]. split; [reflexivity|]. split; [simpl; tauto|]. split; [simpl; tauto|]. lia.
Qed.

(* with re-indexing the same inputs are grouped correctly *)
Lemma witness_panic_with_reindex :
  option_map (map ui_stops) (all_sequences witness_panic) = Some [[0;1;2;3;6];[4;5;7]].
Proof. vm_compute. reflexivity. Qed.

Lemma witness_misgroup_with_reindex :
  option_map (map ui_stops) (all_sequences witness_misgroup) = Some [[0;1;2;3];[4;5;8];[6;7]].
Proof. vm_compute. reflexivity. Qed.
