(* C15: channels, budget counters, wait group, closing order. *)
From Coq Require Import List String Bool.
From NR Require Import Model.Skeleton Model.Discipline Model.RefSkeletons.
From NR Require Import Gen.Skeleton_parallel Gen.Skeleton_solver Gen.Skeleton_seqgen Gen.Skeleton_wrapper Gen.Skeleton_copy.
Import ListNotations.
Open Scope string_scope.

Lemma c15_fp_parallel : project keep_protocol parallel_solve_body = project keep_protocol parallel_solve_body_ref.
Proof. vm_compute. reflexivity. Qed.
Lemma c15_fp_solver : project keep_protocol solver_solve_body = project keep_protocol solver_solve_body_ref.
Proof. vm_compute. reflexivity. Qed.
Lemma c15_fp_wrapper : project keep_protocol solver_parallel_wrapper_body = project keep_protocol solver_parallel_wrapper_body_ref.
Proof. vm_compute. reflexivity. Qed.
