(* C11: every mutable field of solutionImpl gets storage of its own in Copy. *)
From Coq Require Import List String Bool.
From NR Require Import Model.Skeleton Model.Discipline Model.RefSkeletons.
From NR Require Import Gen.Skeleton_parallel Gen.Skeleton_solver Gen.Skeleton_seqgen Gen.Skeleton_wrapper Gen.Skeleton_copy Gen.Skeleton_modelwrites.
Import ListNotations.
Open Scope string_scope.

Lemma c11_table_matches : copy_table = copy_table_ref.
Proof. vm_compute. reflexivity. Qed.
Lemma c11_discipline : copy_violations copy_table = [].
Proof. vm_compute. reflexivity. Qed.

(* a copy is independent of its original only if nothing that works on a
   solution draws from the MODEL's random source, which every solution of the
   model shares: the call sites of Random() on the model are the reviewed ones
   (the seeding of a new solution; repaired defect 61922db was such a site in
   the first-move search of a stop group) *)
Lemma c11_model_random_uses_reviewed : model_random_uses = model_random_uses_ref.
Proof. vm_compute. reflexivity. Qed.
