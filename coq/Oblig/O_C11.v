(* C11: every mutable field of solutionImpl gets storage of its own in Copy. *)
From Coq Require Import List String Bool.
From NR Require Import Model.Skeleton Model.Discipline Model.RefSkeletons.
From NR Require Import Gen.Skeleton_parallel Gen.Skeleton_solver Gen.Skeleton_seqgen Gen.Skeleton_wrapper Gen.Skeleton_copy.
Import ListNotations.
Open Scope string_scope.

Lemma c11_table_matches : copy_table = copy_table_ref.
Proof. vm_compute. reflexivity. Qed.
Lemma c11_discipline : copy_violations copy_table = [].
Proof. vm_compute. reflexivity. Qed.
