From Coq Require Import List String Bool.
From NR Require Import Model.Skeleton Model.Discipline Model.RefSkeletons.
From NR Require Import Gen.Skeleton_parallel Gen.Skeleton_solver Gen.Skeleton_seqgen Gen.Skeleton_wrapper Gen.Skeleton_copy.
Import ListNotations.
Open Scope string_scope.

Eval vm_compute in ("copy_violations", copy_violations copy_table).
Eval vm_compute in ("copy_fields", map (fun r => fst (fst r)) copy_table).
