(* C13: barrier and hand-offs of the deterministic parallel mode. *)
From Coq Require Import List String Bool.
From NR Require Import Model.Skeleton Model.Discipline Model.RefSkeletons.
From NR Require Import Gen.Skeleton_parallel Gen.Skeleton_solver Gen.Skeleton_seqgen Gen.Skeleton_wrapper Gen.Skeleton_copy.
Import ListNotations.
Open Scope string_scope.

Lemma c13_fp_handoff : project keep_handoff parallel_solve_body = project keep_handoff parallel_solve_body_ref.
Proof. vm_compute. reflexivity. Qed.

(* The solver factory and the options factory are called once per run, from
   concurrently running workers.  The ParallelDet model treats every worker as a
   function of its own inputs: nothing may be shared between the solvers the
   factories build, i.e. the returned closures capture no variable of the
   enclosing factory function. *)
From NR Require Import Gen.Skeleton_factories.
Lemma c13_factories_share_nothing :
  map (fun r => fst (fst (fst r))) factory_captures = ["DefaultSolverFactory"; "DefaultSolveOptionsFactory"] /\
  forallb (fun r => match r with (_, n, used, assigned) =>
                      Nat.eqb n 1 && match used with [] => true | _ => false end &&
                      match assigned with [] => true | _ => false end end) factory_captures = true.
Proof. vm_compute. split; reflexivity. Qed.

(* the random start solutions: the copies of the empty solution - each draws a
   seed from the shared solution's random source - are taken by the launching
   loop in index order, never inside the construction goroutines (which start
   solution gets which seed would depend on scheduling) *)
Lemma c13_no_copy_in_wrapper_goroutine : goroutine_calls "Copy" solver_parallel_wrapper_body = false.
Proof. vm_compute. reflexivity. Qed.
