(* C13: barrier and hand-offs of the deterministic parallel mode. *)
From Coq Require Import List String Bool.
From NR Require Import Model.Skeleton Model.Discipline Model.RefSkeletons.
From NR Require Import Gen.Skeleton_parallel Gen.Skeleton_solver Gen.Skeleton_seqgen Gen.Skeleton_wrapper Gen.Skeleton_copy.
Import ListNotations.
Open Scope string_scope.

Lemma c13_fp_handoff : project keep_handoff parallel_solve_body = project keep_handoff parallel_solve_body_ref.
Proof. vm_compute. reflexivity. Qed.
