From Coq Require Import List String Bool.
From NR Require Import Model.Skeleton Model.Discipline Model.RefSkeletons.
From NR Require Import Gen.Skeleton_parallel Gen.Skeleton_solver Gen.Skeleton_seqgen Gen.Skeleton_wrapper Gen.Skeleton_copy.
Import ListNotations.
Open Scope string_scope.

Eval vm_compute in ("racy_parallel", racy_vars parallel_solve_body).
Eval vm_compute in ("racy_solver", racy_vars solver_solve_body).
Eval vm_compute in ("racy_wrapper", racy_vars solver_parallel_wrapper_body).
Eval vm_compute in ("racy_seqgen", racy_vars seqgen_channel_body).
Eval vm_compute in ("random_in_goroutine_seqgen", goroutine_calls "Random" seqgen_channel_body).
