(* C14: field locksets.  Observers are registered on the model and called by the
   goroutines of all parallel runs: every field of such an object that is
   written by a handler must be accessed under one of the object's mutexes that
   all its accesses share (the lockset condition, pairwise; Report reads the
   statistics after the solve and takes no lock).  For the root package
   (solutions are confined to one goroutine, the model is built before it is
   shared) only the rows of the fields that some method guards are pinned to
   the reviewed ones: solutionImpl.random under randomMutex in Copy, the
   model's lock flag and what lock() reads under the model mutex. *)
From Coq Require Import List String Bool.
From NR Require Import Model.Discipline Model.RefSkeletons Gen.Skeleton_fieldlocks.
Import ListNotations.
Open Scope string_scope.

Lemma c14_observer_fields_race_free :
  field_conflicts (String.eqb "Report") field_accesses_observers = [].
Proof. vm_compute. reflexivity. Qed.

Lemma c14_observer_fields_listed : negb (match field_accesses_observers with [] => true | _ => false end) = true.
Proof. vm_compute. reflexivity. Qed.

Lemma c14_guarded_root_fields_reviewed :
  project_guarded field_accesses_root = project_guarded field_accesses_root_ref.
Proof. vm_compute. reflexivity. Qed.
