(* C14: model-level objects (model, stops, expressions, constraints,
   objectives) are shared by the solutions of all parallel runs.  The
   translator lists every write to a field of such an object from a method
   outside the setter / builder / lock-time name families, with its guard, and
   every read of such a field (Gen/Skeleton_modelwrites.v).  The lists are the
   reviewed ones, and the caches that are filled at solve time are only read
   under the lock and only written under a sync.Once or from the one helper
   that its caller runs under the lock. *)
From Coq Require Import List String Bool.
From NR Require Import Model.RefSkeletons Gen.Skeleton_modelwrites.
Import ListNotations.
Open Scope string_scope.

(* the caches filled at solve time: (receiver type, field) *)
Definition lazy_caches : list (string * string) :=
  [("stopImpl", "closest"); ("stopTimeExpressionImpl", "defaultValue")].

Definition is_lazy (t f : string) : bool :=
  existsb (fun p => String.eqb (fst p) t && String.eqb (snd p) f) lazy_caches.

Lemma c14_model_writes_reviewed : model_read_writes = model_read_writes_ref.
Proof. vm_compute. reflexivity. Qed.

Lemma c14_model_reads_reviewed : model_field_reads = model_field_reads_ref.
Proof. vm_compute. reflexivity. Qed.

Lemma c14_lazy_caches_read_under_lock :
  forallb (fun r => match r with (t, _, f, g) => if is_lazy t f then String.eqb g "lock" else true end)
          model_field_reads = true.
Proof. vm_compute. reflexivity. Qed.

Lemma c14_lazy_caches_written_guarded :
  forallb (fun r => match r with
                    | (t, m, f, g) =>
                        if is_lazy t f
                        then String.eqb g "once" || String.eqb g "lock"
                             || (String.eqb t "stopImpl" && String.eqb m "cacheClosestStops")
                        else true
                    end)
          model_read_writes = true.
Proof. vm_compute. reflexivity. Qed.
