(* C12: the order generator goroutine and its use of the solution's random source. *)
From Coq Require Import List String Bool.
From NR Require Import Model.Skeleton Model.Discipline Model.RefSkeletons.
From NR Require Import Gen.Skeleton_parallel Gen.Skeleton_solver Gen.Skeleton_seqgen Gen.Skeleton_wrapper Gen.Skeleton_copy.
Import ListNotations.
Open Scope string_scope.

Lemma c12_fp_seqgen_channel : seqgen_channel_body = seqgen_channel_body_ref.
Proof. vm_compute. reflexivity. Qed.
Lemma c12_fp_seqgen_rec : seqgen_rec_body = seqgen_rec_body_ref.
Proof. vm_compute. reflexivity. Qed.
(* since d045e4b: the orders are generated in the goroutine of the caller - the
   goroutine started by SequenceGeneratorChannel only streams them and never
   touches a random source (the generator's draws and the consumer's draws on
   cost ties are phases of one goroutine: the hypothesis of C12_deterministic) *)
Lemma c12_no_random_in_seqgen_goroutine : goroutine_calls "Random" seqgen_channel_body = false.
Proof. vm_compute. reflexivity. Qed.
Lemma c12_fp_consumer : best_move_multi_body = best_move_multi_body_ref.
Proof. vm_compute. reflexivity. Qed.

(* start-solution construction (solver_parallel.go): the copies of the empty
   solution - each draws a seed from the shared solution's random source - are
   taken by the launching loop in index order, never inside the goroutines *)
Lemma c12_fp_wrapper : solver_parallel_wrapper_body = solver_parallel_wrapper_body_ref.
Proof. vm_compute. reflexivity. Qed.
Lemma c12_no_copy_in_wrapper_goroutine : goroutine_calls "Copy" solver_parallel_wrapper_body = false.
Proof. vm_compute. reflexivity. Qed.

(* a single parallel run spans several cycles: what the next cycle starts from
   is decided by the hand-off between the workers and the collecting goroutine
   (same fingerprint as C13's) *)
Lemma c12_fp_handoff : project keep_handoff parallel_solve_body = project keep_handoff parallel_solve_body_ref.
Proof. vm_compute. reflexivity. Qed.
