(* C14: sync.Pool buffers are used strictly between Get and Put in every
   borrower regenerated from /repo (Model/Pool.v: borrower_ok / acquirer_ok);
   the set of pools, helpers and borrowers is the reviewed one. *)
From Coq Require Import List String Bool.
From NR Require Import Model.Pool Model.RefSkeletons Gen.Skeleton_pool.
Import ListNotations.
Open Scope string_scope.

Lemma c14_pool_translated : pool_unsupported = [].
Proof. vm_compute. reflexivity. Qed.
Lemma c14_pool_inventory :
  pool_vars = pool_vars_ref /\ pool_release_helpers = pool_release_helpers_ref /\
  pool_acquire_helpers = pool_acquire_helpers_ref /\
  pool_borrowers_names = pool_borrowers_names_ref /\ pool_acquirers_names = pool_acquirers_names_ref.
Proof. vm_compute. repeat split; reflexivity. Qed.
Lemma c14_pool_borrowers_ok : forallb (fun p => borrower_ok (snd p)) pool_borrowers = true.
Proof. vm_compute. reflexivity. Qed.
Lemma c14_pool_acquirers_ok : forallb (fun p => acquirer_ok (snd p)) pool_acquirers = true.
Proof. vm_compute. reflexivity. Qed.
