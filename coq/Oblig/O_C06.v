(* C06: best-solution tracking in the single solver and in the aggregator. *)
From Coq Require Import List String Bool.
From NR Require Import Model.Skeleton Model.Discipline Model.RefSkeletons.
From NR Require Import Gen.Skeleton_parallel Gen.Skeleton_solver Gen.Skeleton_seqgen Gen.Skeleton_wrapper Gen.Skeleton_copy.
Import ListNotations.
Open Scope string_scope.

Lemma c06_fp_parallel : project keep_best parallel_solve_body = project keep_best parallel_solve_body_ref.
Proof. vm_compute. reflexivity. Qed.
Lemma c06_fp_solver : project keep_best solver_solve_body = project keep_best solver_solve_body_ref.
Proof. vm_compute. reflexivity. Qed.
