(* Obligations re-proved on every run for C14, on the skeletons regenerated from /repo. *)
From Coq Require Import List String Bool.
From NR Require Import Model.Skeleton Model.Discipline Model.RefSkeletons.
From NR Require Import Gen.Skeleton_parallel Gen.Skeleton_solver Gen.Skeleton_seqgen Gen.Skeleton_wrapper Gen.Skeleton_copy.
Import ListNotations.
Open Scope string_scope.

Lemma c14_fp_parallel : project keep_memory parallel_solve_body = project keep_memory parallel_solve_body_ref.
Proof. vm_compute. reflexivity. Qed.
Lemma c14_fp_parallel_shared : parallel_solve_shared = parallel_solve_shared_ref.
Proof. vm_compute. reflexivity. Qed.
Lemma c14_fp_solver : project keep_memory solver_solve_body = project keep_memory solver_solve_body_ref.
Proof. vm_compute. reflexivity. Qed.
Lemma c14_fp_wrapper : project keep_memory solver_parallel_wrapper_body = project keep_memory solver_parallel_wrapper_body_ref.
Proof. vm_compute. reflexivity. Qed.
Lemma c14_fp_seqgen : project keep_memory seqgen_channel_body = project keep_memory seqgen_channel_body_ref.
Proof. vm_compute. reflexivity. Qed.
Lemma c14_parallel_race_free : racy_vars parallel_solve_body = [].
Proof. vm_compute. reflexivity. Qed.
Lemma c14_solver_race_free : racy_vars solver_solve_body = [].
Proof. vm_compute. reflexivity. Qed.
Lemma c14_wrapper_race_free : racy_vars solver_parallel_wrapper_body = [].
Proof. vm_compute. reflexivity. Qed.

(* solutionImpl.Copy draws the child's seed from the source solution's random
   source: copies of one solution are taken from several goroutines (workers,
   the collecting goroutine, user event handlers), the draw is under
   randomMutex *)
From NR Require Import Gen.Skeleton_copysync.
Lemma c14_fp_copy : solution_copy_body = solution_copy_body_ref.
Proof. vm_compute. reflexivity. Qed.
Lemma c14_copy_seed_draw_locked : call_outside_lock "Int63" "randomMutex" solution_copy_body = false.
Proof. vm_compute. reflexivity. Qed.
