#!/usr/bin/env python3
"""Regenerates /verif/MANIFEST.json from the table below (kept valid at all times)."""
import json, os
V = os.path.dirname(os.path.dirname(os.path.abspath(__file__)))
props = [json.loads(l) for l in open(os.path.join(V, "properties.jsonl"))]

COMMON_NOTE = ("Trusted: Coq 8.16.1 kernel (vm_compute used; no native_compute, no axioms: Print Assumptions output is recorded in the evidence); "
               "extraction with ExtrOcamlBasic only + OCaml driver; the Go harness (-tags verif), Python generators/differ; "
               "floating point outside the integer/dyadic domain is modelled, not verified.")

def E(category, text, technique, note_extra="", ref=""):
    return dict(category=category, text=text, design_ref=ref or "DESIGN.md section 6", technique=technique, note=COMMON_NOTE + " " + note_extra)

ENGINE_TIE = ("Tie: the executable model (Model/Engine.v, extracted) and /repo (Go harness, -tags verif) run the same generated JSON-level models and "
              "operation histories each run; per-step snapshots (routes, every cached value of every planned stop, collections, scores) must be identical; "
              "the property's predicate is also recomputed from the input on the implementation's own snapshots and on every solution the real solver delivers. ")

ALL = {
 "C01": E("proof", "Coq theorems (Props/C01.v) for ALL inputs and ALL fresh operation histories: every reachable state keeps every resource level of every route prefix in [0, capacity] and the distance within max_distance (engine invariant Inv/InvT + specification lemmas). " + ENGINE_TIE,
          "Coq proof (invariant by induction over histories, refinement cache = from-scratch) + differential correspondence + input-level oracle",
          "max_stops / attributes / no-mix are guarded by estimates only in the code: decided by the oracle on solver output and the estimate correspondence (C09), not by a theorem yet."),
 "C02": E("proof", "Coq theorems (Props/C02.v): on every reachable state service starts no earlier than arrival, inside a window or at its close, shift end / max duration / max wait (stop, vehicle) hold; window slot lookup of common/rangecheck.go proved equal to the direct definition. " + ENGINE_TIE,
          "Coq proof (engine invariant + window-lookup lemma) + differential correspondence + input-level oracle",
          "plain integer matrices in the modelled core; time-dependent travel enters through C17's model; triangle-inequality flag (API only) not modelled."),
 "C03": E("proof", "Coq theorems (Props/C03.v): every stop on at most one route, routes well shaped, every unit whole and on one route, on all reachable states. " + ENGINE_TIE,
          "Coq proof (invariants: exactly once, whole and together, ordered under order-respecting moves) + correspondence + oracle (precedence order, direct adjacency, wholeness on implementation snapshots and solver output, join-shaped units)",
          "order and direct adjacency inside a unit: Props/Order.v (order-respecting moves - in particular every move the generator model produces - keep every precedence arc ordered and direct successors adjacent; needed hypotheses shown by counterexamples); stop groups: Props/Units.v (defect witnesses, rollback) and Props/GroupInv.v (bookkeeping stays consistent under succeeding group-level operations when there are no initial stops); alternates and fixed stops are decided by the oracles on implementation snapshots and solver output only."),
 "C04": E("proof", "Coq theorems (Props/C04.v): in every reachable state the cached cells of every route equal the independent forward pass from_scratch over the route's stop sequence; history independence; the forward-walk equations in terms of the input. " + ENGINE_TIE,
          "Coq proof (refinement: incremental propagation = from-scratch recomputation, induction over histories) + correspondence + oracle from the input"),
 "C05": E("proof", "Coq theorems (Props/C05.v): total = sum of terms, terms = recomputation from routes, unplanned penalty = penalties of exactly the units not on routes, history independence. Eight terms are modelled (activation, travel duration, vehicles duration, unplanned, early / late arrival, min stops, stop balance); capacity excess and the alternates' share of the unplanned penalty are re-evaluated from the routes and the input on solver output only. " + ENGINE_TIE,
          "Coq proof (invariant scores_ok/colls_ok) + correspondence (exact term values per step) + oracle"),
 "C06": E("proof", "Coq theorems (Props/C06.v) over ALL operator-result oracles and ALL schedules of the parallel-solver LTS: delivered scores strictly decreasing, first = (min) start score, last = best, nothing lost at close; Reset-to-better refuted and excluded by hypothesis. Tie: the REAL solver loop (NewSkeletonSolver: Solve/invoke/Reset) driven by a scripted operator vs the extracted SolverLoop.srun on generated operator scripts (scores sent, best, work); best-tracking projection of the skeletons regenerated from solve_solver.go / solve_solver_parallel.go equals the reviewed reference (Coq obligation each run); score sequences of the real solver under many option sets.",
          "Coq proof on protocol model + differential correspondence of the real loop under scripted operators + regenerated-skeleton obligations + recorded channel traces",
          "the LTS is hand-written; its relation to the code is the scripted-loop correspondence, the fingerprint equality and the traces, not a proof."),
 "C07": E("proof", "Coq theorems (Props/C07.v): exec_move / unplan_unit either succeed completely or leave routes, cached values, scores exactly and collections as sets unchanged; the undo never fails on reachable states. " + ENGINE_TIE + "Failed calls of the implementation are compared snapshot-for-snapshot with the preceding state.",
          "Coq proof (rollback = identity under the engine invariant) + correspondence on rollback-heavy histories (moves built without estimates)"),
 "C08": E("proof", "Coq theorems (Props/C08.v): planned/unplanned partition, no duplicates, planned iff all stops on routes, unplanned iff none, on all reachable states. " + ENGINE_TIE,
          "Coq proof (invariant) + correspondence (collections as sets per step) + oracle"),
 "C09": E("proof", "Coq theorems (Props/C09.v): for every reachable state and every well-formed move, if all constraint estimates accept the move (Model/Estimates.v) then the exact checks on the propagated route pass and Execute returns Done; per-constraint soundness lemmas, early exits examined (duration groups included: the arrival-only break of the max-wait estimates is refuted, the repaired one proved), refuted branches stated with witnesses; (Props/NoMix.v) the no-mix estimate is sound for its exact rule on every route, unit and placement, no script of plans and un-plans ends in an error. Tie: estimate model vs NewMoveStops(...).IsExecutable(), every built-in estimate asked on its own (violated, SkipVehicle hint) and the outcome of Execute on generated histories of checked moves; Model/NoMix.v vs scripted histories on API-built models; search: IsExecutable => Execute succeeds and leaves a feasible solution, on the implementation's output, also for best / per-vehicle best / explicit moves on full-feature models (time-dependent matrices, multipliers, mixing items, alternates, groups) for which there is no model.",
          "Coq proof (estimate => exact, per constraint) + differential correspondence of the estimate model + oracle",
          "theorems: constraints of the modelled core (capacity, distance, latest start/end, max wait stop/vehicle, max stops, attributes; durations with duration groups) and the no-mix constraint on its own; time-dependent travel, multipliers, alternates only through the model-free full-feature stage."),
 "C10": E("proof", "Coq theorems (Props/C10.v): combine_ascending / generate enumerate exactly the acceptable gap tuples (no duplicates); the order sampler is sound for every Perm tape and complete (exactly the allowed orders, once each) when the sample budget suffices, for the current code; the pre-fix code is refuted (stale direct successor); single-stop selection is executable iff some position is allowed and returns a minimum-cost allowed position, for all coin tapes - under hint soundness, which (Props/Hints.v) is proved for the modelled estimates in any installed order (a SkipVehicle hint is only given when no placement of the unit on the vehicle passes the estimates). Tie: per-estimate answers and hints on checked plan operations vs Model/Hints.v; position generator and order generator of /repo (8 seeds) vs the extracted Model/Search.v on states of generated histories; Solution.BestMove vs a brute-force enumeration through NewMoveStops.",
          "Coq proof (enumeration = specification, sampler soundness/completeness over all tapes) + differential generator sets + brute-force comparison on the implementation",
          "estimates are parameters (taken from the implementation's own NewMoveStops); PlanAll groups are planned greedily by design and are outside the property's wording."),
 "C11": E("proof", "Coq theorems (Props/C11.v): in a heap model of Copy, fresh treatment of every mutable field implies copy and original observe the same at copy time and are independent under all later writes; an aliased field refutes it. Tie: the field table of solutionImpl/Copy regenerated from /repo (with the source field of every copied slice) equals the reference and satisfies the discipline (Coq obligations each run) + copy-then-mutate histories with snapshots (incl. the cached slack) of every live solution vs the model; a copy must equal its original when taken.",
          "Coq proof (heap model, frame) + regenerated-table obligation + differential histories",
          "that Go operations write only through their own solution is checked dynamically, not proved; concurrent use is left to the race detector (C14 thorough)."),
 "C12": E("proof", "Coq theorems (Props/C12.v): a random stream shared by the order-generator goroutine and its consumer gives schedule-independent draws exactly when no phase has draws on both sides; refuted otherwise (witness). Tie: skeletons of SequenceGeneratorChannel / sequenceGenerator / the start-solution construction (no Copy inside its goroutines) regenerated each run; repeated identical runs of the real solver, also with 2-4 start solutions and goroutine timing perturbed per repetition. The order generator shared the stream with its consumer until the repair d045e4b (was a known finding; now an obligation: no random source in its goroutine); map-ordered construction of the per-resource capacity constraints repaired by 688a16e (stream with two capacity resources of different kinds, model rebuilt per repetition); what is delivered must not depend on the consumer's pace (scripted solver, eager vs stalled consumer vs the model).",
          "Coq proof (positive + refutation) + regenerated-skeleton obligation + repeated runs"),
 "C13": E("proof", "Coq theorems (Props/C13.v): what the cycle barrier orders; barrier is not quiescence (two schedules, different finals: refutation); one run / one cycle is schedule independent. Tie: hand-off projection of the regenerated skeleton. Known finding on the unchanged tree.",
          "Coq proof of refutation + partial positive theorem + regenerated-skeleton obligation + repeated runs"),
 "C14": E("proof", "Coq theorems (Props/C14.v): the lockset checker is complete for its definition; mutex exclusion. The checker is evaluated (vm_compute) on the skeletons regenerated from /repo each run: every shared variable with conflicting accesses and no common mutex is reported; listed ones are known findings, any other is a violation. sync.Pool buffers: Props/Pool.v (an accepted borrower uses the buffer only between Get and Put on every path; under that discipline concurrent borrowers never hold or use the same buffer), the borrow programs of all pool users are regenerated from /repo and checked (Oblig/O_C14_pool.v). Field locksets of the observers (objects registered on the model and called by every run): every written field has a mutex common to all its accesses (Oblig/O_C14_fields.v; C14_field_lockset_complete); writes to shared model objects from their read API pinned (O_C14_lazy). Go race detector: thorough tier (also with the performance observer attached), and as the search for a schedule when an obligation breaks.",
          "Coq-evaluated lockset discipline on regenerated skeletons + proof of checker completeness / mutex exclusion",
          "partial: happens-before through channels is not credited; callee-internal races only via the race detector."),
 "C15": E("proof", "Coq theorems (Props/C15.v) for ALL schedules and budgets of the parallel-solver LTS: performed <= budget, reported = performed, parallelism bound, closed is final, every state can close within a bounded number of steps after cancellation, zero budget, barrier. Tie: the REAL parallel solver (NewSkeletonParallelSolver) with scripted factories vs the extracted SolverLoop.pinit/prun on one canonical schedule (iterations granted per started solver, counted at End and in run.Data, solutions delivered) - Props/Grants.v proves these observables independent of the schedule; protocol projection of the regenerated skeletons; option grid on the real solver with event counts and close times.",
          "Coq proof (invariants over the LTS) + regenerated-skeleton obligations + option-grid runs",
          "partial: wall-clock 'shortly after' checked with slack; Go timers/scheduler not modelled."),
 "C16": E("proof", "Coq theorems (Props/C16.v): on well-dimensioned inputs the modelled engine core never falls back to a lookup default: every stop on every reachable route is a declared stop, every matrix lookup is in range; and (Props/PlanUnitsBuild.v) the factory's grouping of precedence relations into plan units (allSequences / mergeUnits, modelled with explicit slice indexing) never indexes out of range and yields the connected components - tied to factory.NewModel by comparing the plan units of built models. PARTIAL: the reflection-heavy decoding/validation glue of the factory is covered only by the differential crash search (corpus of past crashes; structured full-feature stream; precedence-DAG stream; no-mix stream; malformed stream; all through NewModel / NewSolution / ParallelSolver.Solve; and models assembled through the public Go API with vehicles sharing vehicle types and sparse per-type settings), which is not a proof.",
          "Coq proof for the modelled core + crash search (structured, malformed and API-built model streams) on the implementation",
          "partial: factory glue, API-built models and features outside the modelled core are searched, not proved."),
 "C18": E("proof", "Coq theorems (Props/C18.v): on every reachable state, executing a move and un-planning the unit again restores routes, cached values, scores exactly and collections as sets, and the un-plan cannot fail; a probe sequence preserves the solution. Tie: check.SolutionCheck at each verbosity on states of generated histories: the snapshot afterwards must equal the model's unchanged state; units reported plannable are re-planned on a copy taken before the check; a nested stage with stop groups and user constraints whose estimates are optimistic (the check then executes best moves that fail).",
          "Coq proof (execute-then-unplan = identity on observables) + differential snapshots around check.SolutionCheck",
          "nested units are generated on removal-safe models only (elsewhere the non-atomic group un-plan, findings N1-N4, makes the probe non-invertible); alternates are not generated; the solution's random source is not observable."),
 "C19": E("proof", "Coq theorems (Props/C19.v): user constraints are part of the modelled input (bounds on cached fields, per stop or per vehicle, estimate always 'not violated'); on every reachable state every user constraint holds; a rejected move or un-plan restores the solution; Props/SolUser.v: rules with a per-SOLUTION exact check as a guard around the engine (never violated, rejection restores and is genuine, conservative). Tie: real ModelConstraint implementations in the harness (exact check only) vs the model on histories of checked and unchecked moves and on real solver runs; oracle: the user predicate on every snapshot.",
          "Coq proof (engine invariant with user checks, all-or-nothing) + differential histories with real custom constraints + oracle",
          "user constraints of the DSL family (stop-level and vehicle-level bounds on cached fields); solution-level checks and data updaters are not modelled."),
 "C20": E("proof", "Coq theorems (Props/C20.v): every input stop is listed exactly once (route or unplanned), listed values are the solution's, waiting derived as a difference equals the sum of waits, objective total = sum of terms. Tie: factory.ToSolutionOutput on states of generated histories vs the extracted Model/Format.v; search: the projection recomputed from the input on the implementation's snapshots.",
          "Coq proof + differential correspondence of the formatter model + oracle",
          "custom_data pass-through, alternates/groups in the unplanned list and time zones are not modelled; truncation to seconds is the identity on the integer domain."),
 "C17": E("proof", "Coq theorems (Props/C17.v) about Model/TimeDep.v for ALL disjoint minute-aligned layouts within a week inserted in any order, all non-negative duration assignments and all rational departures: accepted, lookup = frame/default, non-negative, FIFO, inside-one-frame, outside-default, total; and for EVERY list of well-formed frames whose calls are all answered ok, in any order, without a disjointness hypothesis: the expression is well-formed, non-negative, FIFO (the overlap test repaired by 603232a rejects every overlapping frame; refuted for the code before: C17_overlap_accepted_refuted). Tie: correspondence of SetExpression/ValueAtValue/ExpressionAtValue with /repo on generated layouts x dense departure grids each run; the four predicates are also evaluated on the implementation's own values.",
          "Coq proof (induction over element list, Q arithmetic) + differential correspondence of the extracted model",
          "IEEE rounding in ValueAtValue compared within rel 2^-40; empty frames sharing a start with another frame are outside the compared domain (factory validation rejects empty frames)."),
}
READY = ["C01", "C02", "C03", "C04", "C05", "C06", "C07", "C08", "C09", "C10", "C11", "C12", "C13", "C14", "C15", "C16", "C17", "C18", "C19", "C20"]
CLAIMED = {k: ALL[k] for k in READY}
NA_REASON = "check under construction (not yet claimed)"

checks, na = [], []
for p in props:
    pid = p["id"]
    if pid in CLAIMED:
        c = CLAIMED[pid]
        checks.append({
            "property_id": pid,
            "quick_cmd": "bin/check --property %s --tier quick" % pid,
            "thorough_cmd": "bin/check --property %s --tier thorough" % pid,
            "evidence_file": "/verif/evidence/%s.json" % pid,
            "replay_cmd_template": "bin/check --property %s --replay {path}" % pid,
            "engine": "coq+correspondence",
            "level_claimed": {"category": c["category"], "text": c["text"], "design_ref": c["design_ref"]},
            "level_note": c["note"],
            "technique": c["technique"],
        })
    else:
        na.append({"property_id": pid, "reason": NA_REASON})
m = {
 "version": 1,
 "setup_cmd": "bin/setup",
 "hooks": {"guard": "verif", "enable": "go build -tags verif (the harness in /verif/harness is always built with the tag; hooks live in /repo/verif_*.go)",
           "baseline_off_cmd": "cd /repo && go test -mod=mod -vet=off -count=1 -timeout 25m ./...",
           "source_commits": ["967b7cd", "13383c3"], "add_only": True},
 "engines": [
   {"name": "coq", "path": "/verif/coq", "serves_properties": sorted(CLAIMED), "kind_free_text": "Coq 8.16.1 development: executable Gallina models, proofs, property theorems"},
   {"name": "correspondence", "path": "/verif/bin/check", "serves_properties": sorted(CLAIMED), "kind_free_text": "Go harness vs extracted OCaml model on generated cases; oracle search for failing inputs"},
 ],
 "checks": checks,
 "not_applicable": na,
 "notes": "see DESIGN.md; `fix:` commits and known findings are listed in known_findings.json",
}
json.dump(m, open(os.path.join(V, "MANIFEST.json"), "w"), indent=1)
print("claimed", sorted(CLAIMED), "na", len(na))
