#!/usr/bin/env python3
"""Regenerates /verif/MANIFEST.json from the table below (kept valid at all times)."""
import json, os
V = os.path.dirname(os.path.dirname(os.path.abspath(__file__)))
props = [json.loads(l) for l in open(os.path.join(V, "properties.jsonl"))]

COMMON_NOTE = ("Trusted: Coq 8.16.1 kernel (vm_compute used; no native_compute, no axioms: Print Assumptions output is recorded in the evidence); "
               "extraction with ExtrOcamlBasic only + OCaml driver; the Go harness (-tags verif), Python generators/differ; "
               "floating point outside the integer/dyadic domain is modelled, not verified.")

CLAIMED = {
 "C17": dict(
   category="proof",
   text="Coq theorems (Props/C17.v) about Model/TimeDep.v for ALL disjoint minute-aligned layouts within a week inserted in any order, all non-negative duration assignments and all rational departures: accepted, lookup = frame/default, non-negative, FIFO, inside-one-frame, outside-default, total. Tie: correspondence of SetExpression/ValueAtValue/ExpressionAtValue with /repo on generated layouts x dense departure grids each run; the four predicates are also evaluated on the implementation's own values to produce a failing input when something breaks.",
   design_ref="DESIGN.md section 6 C17",
   technique="Coq proof (induction over element list, Q arithmetic) + differential correspondence of the extracted model",
   note=COMMON_NOTE + " IEEE rounding in ValueAtValue compared within rel 2^-40; empty frames sharing a start with another frame are outside the compared domain (factory validation rejects empty frames)."),
}
NA_REASON = "check under construction (not yet claimed)"

checks, na = [], []
for p in props:
    pid = p["id"]
    if pid in CLAIMED:
        c = CLAIMED[pid]
        checks.append({
            "property_id": pid,
            "quick_cmd": "bin/check --property %s --tier quick" % pid,
            "thorough_cmd": "bin/check --property %s --tier thorough" % pid,
            "evidence_file": "/verif/evidence/%s.json" % pid,
            "replay_cmd_template": "bin/check --property %s --replay {path}" % pid,
            "engine": "coq+correspondence",
            "level_claimed": {"category": c["category"], "text": c["text"], "design_ref": c["design_ref"]},
            "level_note": c["note"],
            "technique": c["technique"],
        })
    else:
        na.append({"property_id": pid, "reason": NA_REASON})
m = {
 "version": 1,
 "setup_cmd": "bin/setup",
 "hooks": {"guard": "verif", "enable": "go build -tags verif (the harness in /verif/harness is always built with the tag; hooks live in /repo/verif_*.go)",
           "baseline_off_cmd": "cd /repo && go test -mod=mod -vet=off -count=1 -timeout 25m ./...",
           "source_commits": ["967b7cd"], "add_only": True},
 "engines": [
   {"name": "coq", "path": "/verif/coq", "serves_properties": sorted(CLAIMED), "kind_free_text": "Coq 8.16.1 development: executable Gallina models, proofs, property theorems"},
   {"name": "correspondence", "path": "/verif/bin/check", "serves_properties": sorted(CLAIMED), "kind_free_text": "Go harness vs extracted OCaml model on generated cases; oracle search for failing inputs"},
 ],
 "checks": checks,
 "not_applicable": na,
 "notes": "see DESIGN.md; `fix:` commits and known findings are listed in known_findings.json",
}
json.dump(m, open(os.path.join(V, "MANIFEST.json"), "w"), indent=1)
print("claimed", sorted(CLAIMED), "na", len(na))
