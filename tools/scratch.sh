#!/bin/bash
# tools/scratch.sh <patch.diff|-> : scratch copy of /verif (/tmp/dbg_verif) + scratch worktree of /repo (/tmp/dbg_wt, patch applied)
# for debugging a check against a changed tree without touching /repo, /verif/_build or /verif/evidence.
# afterwards: cd /tmp/dbg_verif && VERIF_REPO=/tmp/dbg_wt bin/check ... ; clean up with tools/scratch.sh --rm
set -e
export GOFLAGS=-mod=mod GOPROXY=off GOSUMDB=off GOTOOLCHAIN=local
git -C /repo worktree remove --force /tmp/dbg_wt 2>/dev/null || true
rm -rf /tmp/dbg_wt /tmp/dbg_verif
[ "$1" = "--rm" ] && exit 0
git -C /repo worktree add -q --detach /tmp/dbg_wt HEAD
[ "$1" != "-" ] && git -C /tmp/dbg_wt apply "$1"
mkdir -p /tmp/dbg_verif
rsync -a --exclude _build --exclude replays --exclude .git /verif/ /tmp/dbg_verif/
sed -i 's#=> /repo#=> /tmp/dbg_wt#' /tmp/dbg_verif/harness/go.mod
cd /tmp/dbg_verif && VERIF_REPO=/tmp/dbg_wt bin/setup >/dev/null 2>&1
echo ready
