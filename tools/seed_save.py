#!/usr/bin/env python3
"""tools/seed_save.py <id> <worktree> <property> "<summary>" "<what it needs>"  - stores a seeded change produced in a scratch
worktree (patch.diff, the demonstration test, meta.json), removes the worktree, and confirms it (tools/seeded.py confirm)."""
import json, os, subprocess, sys
V = os.path.dirname(os.path.dirname(os.path.abspath(__file__)))
sid, wt, pid, summary, needs = sys.argv[1:6]
d = os.path.join(V, "seeded", sid)
os.makedirs(d, exist_ok=True)
diff = subprocess.run(["git", "-C", wt, "diff"], capture_output=True, text=True).stdout
open(os.path.join(d, "patch.diff"), "w").write(diff)
files = [l[6:] for l in diff.splitlines() if l.startswith("+++ b/")]
for fn in os.listdir(wt):
    if fn.endswith("_test.go") and fn.startswith("seeded"):
        open(os.path.join(d, fn), "w").write(open(os.path.join(wt, fn)).read())
json.dump({"property": pid, "summary": summary, "what_it_needs_to_manifest": needs, "files_changed": files,
           "how_verified": "tools/seeded.py confirm seeded/%s (scratch worktree): patch applies, builds, demo passes without / fails with the change, suite passes with the change" % sid,
           "demo_command": "go test -vet=off -count=1 -run TestSeeded ."}, open(os.path.join(d, "meta.json"), "w"), indent=1)
subprocess.run(["git", "-C", "/repo", "worktree", "remove", "--force", wt])
r = subprocess.run([sys.executable, os.path.join(V, "tools", "seeded.py"), "confirm", d], capture_output=True, text=True)
print("\n".join(l for l in r.stdout.splitlines() if "tail" not in l))
