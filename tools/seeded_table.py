#!/usr/bin/env python3
"""Rewrites the seeded-changes table of DESIGN.md (section 8) from seeded/RESULTS.json and seeded/*/meta.json."""
import json, os, re
V = os.path.dirname(os.path.dirname(os.path.abspath(__file__)))
res = json.load(open(os.path.join(V, "seeded", "RESULTS.json")))
rows = ["Each change was produced by an independent agent that saw only the property text and a scratch worktree of /repo; it compiles,",
        "passes the existing test suite and comes with a demonstration (`seeded/<id>/seeded_demo_test.go`) that fails with the change and",
        "passes without it - all three confirmed in a scratch worktree by `tools/seeded.py confirm` (`seeded/<id>/verification.json`).",
        "The checks were then run against a scratch worktree of /repo with the patch applied, from a scratch copy of /verif (`tools/regress.py seeded`; last full run on the final tree, /repo at f1ffa92).",
        "\"replay\" = a concrete failing input / history / schedule is reported; \"tie\" = only the broken proof obligation or",
        "correspondence is reported (`no-failing-input-found`).", "",
        "| change | site | what breaks | checks run: outcome |", "|---|---|---|---|"]
for sid in sorted(res):
    meta = {}
    mf = os.path.join(V, "seeded", sid, "meta.json")
    if os.path.exists(mf):
        meta = json.load(open(mf))
    files = meta.get("files_changed") or meta.get("files") or []
    if isinstance(files, str):
        files = [files]
    summ = (meta.get("summary") or meta.get("what") or "").replace("|", "/").replace("\n", " ")
    summ = summ[:230] + ("..." if len(summ) > 230 else "")
    outs = []
    for pid, o in sorted(res[sid].items()):
        short = "replay" if "concrete" in o else "tie" if "caught" in o else "MISSED"
        outs.append("%s: %s" % (pid, short))
    rows.append("| %s | %s | %s | %s |" % (sid, ", ".join("`%s`" % f for f in files), summ, "; ".join(outs)))
text = "\n".join(rows)
p = os.path.join(V, "DESIGN.md")
s = open(p).read()
if "<<SEEDED-TABLE>>" in s:
    s = s.replace("<<SEEDED-TABLE>>", "<!-- SEEDED-TABLE-BEGIN -->\n" + text + "\n<!-- SEEDED-TABLE-END -->")
else:
    s = re.sub(r"<!-- SEEDED-TABLE-BEGIN -->.*?<!-- SEEDED-TABLE-END -->", lambda m: "<!-- SEEDED-TABLE-BEGIN -->\n" + text + "\n<!-- SEEDED-TABLE-END -->", s, flags=re.S)
open(p, "w").write(s)
print("table with %d rows" % len(res))
