#!/usr/bin/env python3
"""tools/seeded.py confirm <dir>   - in a scratch worktree: patch applies, builds, baseline suite passes, demo fails with / passes without
   tools/seeded.py check <dir> <pid> [<pid>...]  - apply the patch to /repo, run the quick checks, revert; prints which fire."""
import json, os, subprocess, sys, shutil, tempfile
V = os.path.dirname(os.path.dirname(os.path.abspath(__file__)))
ENV = dict(os.environ, GOFLAGS="-mod=mod", GOPROXY="off", GOSUMDB="off", GOTOOLCHAIN="local")
SUITE = "go test -vet=off -count=1 -timeout 20m . ./common/... ./factory/... ./schema/... ./tests/..."


def sh(cmd, cwd, timeout=2400):
    p = subprocess.run(cmd, shell=True, cwd=cwd, env=ENV, stdout=subprocess.PIPE, stderr=subprocess.STDOUT, text=True, timeout=timeout)
    return p.returncode, p.stdout


def confirm(d):
    d = os.path.abspath(d)
    wt = tempfile.mkdtemp(prefix="seedchk_", dir="/tmp")
    os.rmdir(wt)
    rc, out = sh("git -C /repo worktree add -q --detach %s HEAD" % wt, "/")
    res = {}
    try:
        demos = [f for f in os.listdir(d) if f.endswith("_test.go")]
        for f in demos:
            shutil.copy(os.path.join(d, f), os.path.join(wt, f))
        run = "go test -vet=off -count=1 -run 'TestSeeded' ."
        rc, out = sh(run, wt)
        res["demo_without_change"] = "pass" if rc == 0 else "FAIL"
        res["demo_without_tail"] = out[-300:]
        rc, out = sh("git apply %s" % os.path.join(d, "patch.diff"), wt)
        res["patch_applies"] = rc == 0
        rc, out = sh("go build ./...", wt)
        res["builds"] = rc == 0
        rc, out = sh(run, wt)
        res["demo_with_change"] = "fail" if rc != 0 else "PASS"
        res["demo_with_tail"] = out[-600:]
        for f in demos:
            os.remove(os.path.join(wt, f))
        rc, out = sh(SUITE, wt)
        retries = 0
        # tests/stop_balancing_objective solves 10000 iterations under a 10 s limit in deterministic parallel mode over
        # many cycles: its result depends on machine load (and on the C13 finding); a failure confined to it is re-run
        while rc != 0 and retries < 3 and all("stop_balancing_objective" in l for l in out.splitlines() if l.startswith("FAIL\t")):
            retries += 1
            rc, out = sh("go test -vet=off -count=1 ./tests/stop_balancing_objective/", wt)
        res["suite_with_change"] = "pass" if rc == 0 else "FAIL"
        res["suite_flaky_reruns_of_stop_balancing_objective"] = retries
        if rc != 0:
            res["suite_tail"] = out[-800:]
    finally:
        sh("git -C /repo worktree remove --force %s" % wt, "/")
    print(json.dumps(res, indent=1))
    return res


def check(d, pids):
    d = os.path.abspath(d)
    rc, out = sh("git -C /repo status --porcelain", "/")
    assert out.strip() == "", "/repo not clean: " + out
    rc, out = sh("git -C /repo apply %s" % os.path.join(d, "patch.diff"), "/")
    assert rc == 0, out
    res = {}
    bak = tempfile.mkdtemp(prefix="evbak_", dir=os.path.join(V, "_build"))
    sh("cp -a evidence/. %s/" % bak, V)     # evidence committed comes from clean-tree runs only
    try:
        for pid in pids:
            rc, out = sh("timeout 1500 bin/check --property %s --tier quick" % pid, V)
            v = [l for l in out.splitlines() if l.startswith("VIOLATION")] + ["(+%d KNOWN-FINDING lines)" % sum(1 for l in out.splitlines() if l.startswith("KNOWN-FINDING"))]
            res[pid] = {"rc": rc, "lines": [l[:160] for l in v]}
            print(pid, rc, v[:2], flush=True)
    finally:
        sh("git -C /repo checkout -- .", "/")
        sh("cp -a %s/. evidence/ && rm -rf %s" % (bak, bak), V)
    return res


PLAN = {   # which properties' quick checks are run against which seeded change
    "C01-a": ["C01"], "C02-a": ["C02"], "C03-a": ["C03"], "C04-a": ["C04", "C07"], "C05-a": ["C05", "C07"], "C06-a": ["C06"],
    "C07-a": ["C07"], "C08-a": ["C08"], "C09-a": ["C09"], "C10-a": ["C10"], "C11-a": ["C11"], "C12-a": ["C12"], "C13-a": ["C13"],
    "C14-a": ["C14"], "C15-a": ["C15"], "C16-a": ["C16", "C03"], "C17-a": ["C17"], "C18-a": ["C18"], "C19-a": ["C19"],
    "C20-a": ["C20", "C08"],
    "C01-b": ["C01"], "C02-b": ["C02"], "C03-b": ["C03"], "C04-b": ["C04"], "C05-b": ["C05"], "C07-b": ["C07"], "C08-b": ["C08"],
    "C09-b": ["C09"], "C10-b": ["C10"], "C16-b": ["C16"], "C18-b": ["C18"], "C20-b": ["C20"],
    "C06-b": ["C06"], "C11-b": ["C11"], "C12-b": ["C12", "C13"], "C13-b": ["C13"], "C14-b": ["C14"], "C15-b": ["C15"], "C17-b": ["C17"],
    "C19-b": ["C19", "C07"],
    "C09-c": ["C09", "C16"], "C16-c": ["C16"], "C10-c": ["C10"], "C11-c": ["C11"], "C18-c": ["C18"],
    "C02-c": ["C02"], "C03-c": ["C03"], "C04-c": ["C04", "C17"], "C05-c": ["C05"], "C20-c": ["C20"],
    "C01-d": ["C01"], "C06-d": ["C06"], "C07-d": ["C07"], "C08-d": ["C08"], "C12-d": ["C12"], "C13-d": ["C13"], "C14-d": ["C14"],
    "C15-d": ["C15"], "C17-d": ["C17"], "C19-d": ["C19"],
    "C02-e": ["C02"], "C03-e": ["C03"], "C04-e": ["C04"], "C05-e": ["C05"], "C09-e": ["C09"], "C10-e": ["C10"], "C11-e": ["C11"],
    "C16-e": ["C16"], "C18-e": ["C18"], "C20-e": ["C20"],
    "C01-f": ["C01"], "C06-f": ["C06"], "C07-f": ["C07"], "C08-f": ["C08"], "C12-f": ["C12"], "C13-f": ["C13"], "C14-f": ["C14"],
    "C15-f": ["C15"], "C17-f": ["C17"], "C19-f": ["C19"],
    "C02-g": ["C02"], "C03-g": ["C03"], "C04-g": ["C04"], "C05-g": ["C05"], "C09-g": ["C09"], "C10-g": ["C10"], "C11-g": ["C11"],
    "C16-g": ["C16"], "C18-g": ["C18"], "C20-g": ["C20"],
    "C01-h": ["C01"], "C06-h": ["C06"], "C07-h": ["C07"], "C08-h": ["C08"], "C12-h": ["C12"], "C13-h": ["C13"], "C14-h": ["C14"],
    "C15-h": ["C15"], "C17-h": ["C17"], "C19-h": ["C19"],
}


def run_all(only=None):
    """check every seeded change against the planned properties; writes seeded/RESULTS.json and seeded/<id>/verification.json"""
    out = {}
    rf = os.path.join(V, "seeded", "RESULTS.json")
    if os.path.exists(rf):
        out = json.load(open(rf))
    for sid in sorted(PLAN):
        if only and sid not in only:
            continue
        d = os.path.join(V, "seeded", sid)
        if not os.path.isdir(d):
            continue
        r = check(d, PLAN[sid])
        entry = {}
        for pid, x in r.items():
            v = [l for l in x["lines"] if l.startswith("VIOLATION")]
            entry[pid] = "missed" if not v else ("caught: broken proof/correspondence, no failing input found" if v[0].endswith("no-failing-input-found")
                                                 else "caught with a concrete replay")
        out[sid] = entry
        json.dump(out, open(rf, "w"), indent=1, sort_keys=True)
        vf = os.path.join(d, "verification.json")
        ver = json.load(open(vf)) if os.path.exists(vf) else {}
        ver["checks_run"] = ["git -C /repo apply seeded/%s/patch.diff; bin/check --property %s --tier quick; git -C /repo checkout -- ." % (sid, p) for p in PLAN[sid]]
        ver["outcome"] = entry
        json.dump(ver, open(vf, "w"), indent=1, sort_keys=True)
    return out


if __name__ == "__main__":
    if sys.argv[1] == "confirm":
        r = confirm(sys.argv[2])
        vf = os.path.join(os.path.abspath(sys.argv[2]), "verification.json")
        ver = json.load(open(vf)) if os.path.exists(vf) else {}
        ver["confirmed_in_scratch_worktree"] = {k: v for k, v in r.items() if "tail" not in k}
        ver["confirm_commands"] = ["go test -vet=off -count=1 -run TestSeeded . (demo without / with the change)", "go build ./...", SUITE]
        json.dump(ver, open(vf, "w"), indent=1, sort_keys=True)
    elif sys.argv[1] == "all":
        print(json.dumps(run_all(sys.argv[2:] or None), indent=1))
    else:
        r = check(sys.argv[2], sys.argv[3:])
        print(json.dumps(r, indent=1))
