#!/usr/bin/env python3
"""tools/seeded.py confirm <dir>   - in a scratch worktree: patch applies, builds, baseline suite passes, demo fails with / passes without
   tools/seeded.py check <dir> <pid> [<pid>...]  - apply the patch to /repo, run the quick checks, revert; prints which fire."""
import json, os, subprocess, sys, shutil, tempfile
V = os.path.dirname(os.path.dirname(os.path.abspath(__file__)))
ENV = dict(os.environ, GOFLAGS="-mod=mod", GOPROXY="off", GOSUMDB="off", GOTOOLCHAIN="local")
SUITE = "go test -vet=off -count=1 -timeout 20m . ./common/... ./factory/... ./schema/... ./tests/..."


def sh(cmd, cwd, timeout=2400):
    p = subprocess.run(cmd, shell=True, cwd=cwd, env=ENV, stdout=subprocess.PIPE, stderr=subprocess.STDOUT, text=True, timeout=timeout)
    return p.returncode, p.stdout


def confirm(d):
    d = os.path.abspath(d)
    wt = tempfile.mkdtemp(prefix="seedchk_", dir="/tmp")
    os.rmdir(wt)
    rc, out = sh("git -C /repo worktree add -q --detach %s HEAD" % wt, "/")
    res = {}
    try:
        demos = [f for f in os.listdir(d) if f.endswith("_test.go")]
        for f in demos:
            shutil.copy(os.path.join(d, f), os.path.join(wt, f))
        run = "go test -vet=off -count=1 -run 'TestSeeded' ."
        rc, out = sh(run, wt)
        res["demo_without_change"] = "pass" if rc == 0 else "FAIL"
        res["demo_without_tail"] = out[-300:]
        rc, out = sh("git apply %s" % os.path.join(d, "patch.diff"), wt)
        res["patch_applies"] = rc == 0
        rc, out = sh("go build ./...", wt)
        res["builds"] = rc == 0
        rc, out = sh(run, wt)
        res["demo_with_change"] = "fail" if rc != 0 else "PASS"
        res["demo_with_tail"] = out[-600:]
        for f in demos:
            os.remove(os.path.join(wt, f))
        rc, out = sh(SUITE, wt)
        res["suite_with_change"] = "pass" if rc == 0 else "FAIL"
        if rc != 0:
            res["suite_tail"] = out[-800:]
    finally:
        sh("git -C /repo worktree remove --force %s" % wt, "/")
    print(json.dumps(res, indent=1))
    return res


def check(d, pids):
    d = os.path.abspath(d)
    rc, out = sh("git -C /repo status --porcelain", "/")
    assert out.strip() == "", "/repo not clean: " + out
    rc, out = sh("git -C /repo apply %s" % os.path.join(d, "patch.diff"), "/")
    assert rc == 0, out
    res = {}
    bak = tempfile.mkdtemp(prefix="evbak_", dir=os.path.join(V, "_build"))
    sh("cp -a evidence/. %s/" % bak, V)     # evidence committed comes from clean-tree runs only
    try:
        for pid in pids:
            rc, out = sh("timeout 1500 bin/check --property %s --tier quick" % pid, V)
            v = [l for l in out.splitlines() if l.startswith("VIOLATION")] + ["(+%d KNOWN-FINDING lines)" % sum(1 for l in out.splitlines() if l.startswith("KNOWN-FINDING"))]
            res[pid] = {"rc": rc, "lines": [l[:160] for l in v]}
            print(pid, rc, v[:2], flush=True)
    finally:
        sh("git -C /repo checkout -- .", "/")
        sh("cp -a %s/. evidence/ && rm -rf %s" % (bak, bak), V)
    return res


if __name__ == "__main__":
    if sys.argv[1] == "confirm":
        confirm(sys.argv[2])
    else:
        r = check(sys.argv[2], sys.argv[3:])
        print(json.dumps(r, indent=1))
