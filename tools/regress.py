#!/usr/bin/env python3
"""tools/regress.py reverts [<commit>...]   - for every `fixed:` entry of known_findings.json: a scratch worktree of /repo with
                                             that fix: commit reverted, the quick check of its property run against it
   tools/regress.py seeded [<id>...]        - the same for seeded/<id>/patch.diff and the properties of tools/seeded.py PLAN

Nothing here touches /repo's working tree, /verif/_build or /verif/evidence: the checks run from a scratch copy of /verif
(/tmp/rg_verif, built once) with VERIF_REPO pointing at a scratch worktree (/tmp/rg_wt).  Writes tools-level results to
seeded/REVERTS.json / seeded/RESULTS_scratch.json.  A revert that does not apply cleanly (later commits touched the same
lines) is reported as 'conflict' and skipped."""
import json, os, re, shutil, subprocess, sys
V = os.path.dirname(os.path.dirname(os.path.abspath(__file__)))
COPY, WT = "/tmp/rg_verif", "/tmp/rg_wt"
ENV = dict(os.environ, GOFLAGS="-mod=mod", GOPROXY="off", GOSUMDB="off", GOTOOLCHAIN="local", VERIF_REPO=WT)


def sh(cmd, cwd="/", env=None, timeout=3600):
    p = subprocess.run(cmd, shell=True, cwd=cwd, env=env or os.environ, stdout=subprocess.PIPE, stderr=subprocess.STDOUT, text=True, timeout=timeout)
    return p.returncode, p.stdout


def prepare_copy():
    sh("rm -rf %s && mkdir -p %s" % (COPY, COPY))
    sh("rsync -a --exclude _build --exclude replays --exclude .git %s/ %s/" % (V, COPY))
    sh("sed -i 's#=> /repo#=> %s#' %s/harness/go.mod" % (WT, COPY))
    fresh_wt(None)
    rc, out = sh("bin/setup", cwd=COPY, env=ENV)
    print("[regress] scratch copy built rc=%d" % rc, flush=True)


def fresh_wt(action):
    sh("git -C /repo worktree remove --force %s" % WT)
    sh("rm -rf %s" % WT)
    rc, out = sh("git -C /repo worktree add -q --detach %s HEAD" % WT)
    assert rc == 0, out
    if action is None:
        return True, ""
    rc, out = sh(action, cwd=WT)
    if rc != 0:
        return False, out[-300:]
    rc, out = sh("go build ./...", cwd=WT, env=ENV)
    return rc == 0, out[-300:]


def check(pid):
    rc, out = sh("timeout 3000 bin/check --property %s --tier quick" % pid, cwd=COPY, env=ENV)
    v = [l for l in out.splitlines() if l.startswith("VIOLATION")]
    if not v:
        return "missed"
    return "caught: tie" if v[0].endswith("no-failing-input-found") else "caught: replay"


def reverts(only):
    kf = json.load(open(os.path.join(V, "known_findings.json")))
    res = {}
    rf = os.path.join(V, "seeded", "REVERTS.json")
    if os.path.exists(rf):
        res = json.load(open(rf))          # merge: a partial run keeps the other entries
    for e in kf["fixed"]:
        m = re.match(r"fixed: property=(C\d\d) ([0-9a-f]{7})", e)
        if not m or (only and m.group(2) not in only):
            continue
        pid, commit = m.groups()
        ok, msg = fresh_wt("git revert -n %s" % commit)
        if not ok:
            res[commit] = {"property": pid, "outcome": "conflict: " + msg.replace("\n", " ")[-160:]}
        else:
            res[commit] = {"property": pid, "outcome": check(pid)}
        print("[regress] revert %s (%s): %s" % (commit, pid, res[commit]["outcome"]), flush=True)
        json.dump(res, open(os.path.join(V, "seeded", "REVERTS.json"), "w"), indent=1, sort_keys=True)
    return res


def seeded(only):
    sys.path.insert(0, os.path.join(V, "tools"))
    import seeded as S
    res = {}
    rf = os.path.join(V, "seeded", "RESULTS_scratch.json")
    if os.path.exists(rf):
        res = json.load(open(rf))
    for sid in sorted(S.PLAN):
        if only and sid not in only:
            continue
        d = os.path.join(V, "seeded", sid)
        ok, msg = fresh_wt("git apply %s/patch.diff" % d)
        entry = {}
        for pid in S.PLAN[sid]:
            entry[pid] = ("patch does not apply: " + msg) if not ok else check(pid)
        res[sid] = entry
        print("[regress] seeded %s: %s" % (sid, entry), flush=True)
        json.dump(res, open(rf, "w"), indent=1, sort_keys=True)
    return res


if __name__ == "__main__":
    prepare_copy()
    try:
        if sys.argv[1] == "reverts":
            reverts(sys.argv[2:])
        else:
            seeded(sys.argv[2:])
    finally:
        sh("git -C /repo worktree remove --force %s" % WT)
        sh("rm -rf %s %s" % (WT, COPY))
