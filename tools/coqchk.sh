#!/bin/bash
# Re-checks every compiled Props module (and everything it depends on) with Coq's
# independent checker and prints the axioms / unsafe features the whole context relies on.
# Works on a scratch copy of coq/ (coqchk must not disturb the build tree); writes
# /verif/coqchk_report.txt.  Takes a few minutes.
set -e
V="$(cd "$(dirname "$0")/.." && pwd)"
( cd "$V/coq" && timeout 3000 make -j16 >/dev/null 2>&1 )
T="$(mktemp -d /tmp/coqchk_XXXXXX)"
cp -a "$V/coq/." "$T/"
rm -rf "$T/Gen" "$T/Oblig"
cd "$T"
MODS=$(ls Props/*.vo | sed 's#Props/\(.*\)\.vo#NR.Props.\1#')
{
  echo "# coqchk -silent -o -Q . NR <all Props modules>  ($(coqchk --version 2>/dev/null | head -1))"
  echo "# modules: $(echo $MODS | tr '\n' ' ')"
  echo "# run at $(date -u +%Y-%m-%dT%H:%M:%SZ) on /verif commit $(git -C "$V" rev-parse --short HEAD)"
  timeout 7200 coqchk -silent -o -Q . NR $MODS 2>&1
  echo "# exit code $?"
} > "$V/coqchk_report.txt"
cd /; rm -rf "$T"
tail -15 "$V/coqchk_report.txt"
