#!/usr/bin/env python3
"""Writes coq/Model/RefSkeletons.v from the current translator output (coq/Gen):
the reviewed reference fingerprints that the obligations compare against.
Run by hand after reviewing a change of /repo's synchronisation structure."""
import os, re, subprocess, sys
V = os.path.dirname(os.path.dirname(os.path.abspath(__file__)))
gen = os.path.join(V, "coq", "Gen")
out = ["(* Reference fingerprints: the translator's output on the reviewed tree",
       "   (pinned commit + the fix: commits listed in known_findings.json).",
       "   Regenerate with tools/update_refs.py after review; never at check time. *)",
       "From Coq Require Import List String.", "From NR Require Import Model.Skeleton Model.Pool.",
       "Import ListNotations.", "Open Scope string_scope.", ""]
for fn in sorted(os.listdir(gen)):
    if not fn.startswith("Skeleton_") or not fn.endswith(".v"):
        continue
    src = open(os.path.join(gen, fn)).read()
    for m in re.finditer(r"Definition (\w+) : ([^\n]+) :=\n  (.*?)\.\n\n", src, re.S):
        if fn == "Skeleton_pool.v" and m.group(1) in ("pool_borrowers", "pool_acquirers", "pool_unsupported"):
            continue
        out.append("Definition %s_ref : %s :=\n  %s.\n" % (m.group(1), m.group(2), m.group(3)))
open(os.path.join(V, "coq", "Model", "RefSkeletons.v"), "w").write("\n".join(out))
print("written")
